"""Common driver machinery: build the harness from /repo, run TLC (generate / validate / model-check),
collect TLC's judgements, match known findings, write evidence, exit with the interface's codes."""
import concurrent.futures as cf
import hashlib
import json
import os
import re
import shutil
import subprocess
import sys
import time
from pathlib import Path

VERIF = Path(__file__).resolve().parent.parent
SPEC = VERIF / "spec"
HARNESS = VERIF / "harness"
WORK = VERIF / ".work"
EVID = VERIF / "evidence"
JAR = "/opt/veriftools/tla/tla2tools.jar:/opt/veriftools/tla/CommunityModules-deps.jar"
NCPU = os.cpu_count() or 8


class ToolError(Exception):
    pass


def log(*a):
    print("[pv]", *a, flush=True)


def seed():
    try:
        return int(os.environ.get("VERIF_SEED", "1"))
    except ValueError:
        return 1


# ------------------------------------------------------------------------------------------------
# harness

_built = False


def build_harness():
    """cargo build of /verif/harness against /repo's working tree (hooks on). Tool error on failure."""
    global _built
    binp = HARNESS / "target" / "debug" / "pv"
    if _built:
        return binp
    lock = HARNESS / "Cargo.lock"
    if not lock.exists():
        shutil.copy("/repo/Cargo.lock", lock)
    env = dict(os.environ, CARGO_NET_OFFLINE="true")
    t0 = time.time()
    p = subprocess.run(["cargo", "build", "--offline", "-q"], cwd=HARNESS, env=env, capture_output=True, text=True)
    if p.returncode != 0:
        # a stale lock file (dependency set of /repo changed): retry once with a fresh copy
        shutil.copy("/repo/Cargo.lock", lock)
        p = subprocess.run(["cargo", "build", "--offline", "-q"], cwd=HARNESS, env=env, capture_output=True, text=True)
    if p.returncode != 0:
        sys.stderr.write(p.stderr[-6000:])
        raise ToolError("cargo build of the harness failed")
    log(f"harness built in {time.time()-t0:.1f}s")
    _built = True
    return binp


def pv(args, env=None, timeout=3600, stdin=None, check=True):
    binp = build_harness()
    e = dict(os.environ)
    e.setdefault("VERIF_SEED", str(seed()))
    if env:
        e.update({k: str(v) for k, v in env.items()})
    p = subprocess.run([str(binp)] + [str(a) for a in args], env=e, capture_output=True, text=True, timeout=timeout, input=stdin)
    if check and p.returncode != 0:
        sys.stderr.write(p.stdout[-3000:] + p.stderr[-6000:])
        raise ToolError(f"harness command failed: pv {' '.join(map(str, args))}")
    return p


def pv_parallel(jobs, timeout=3600):
    """jobs: list of (args, env). Runs up to NCPU harness processes at once."""
    build_harness()
    with cf.ThreadPoolExecutor(max_workers=NCPU) as ex:
        futs = [ex.submit(pv, a, e, timeout) for a, e in jobs]
        return [f.result() for f in futs]


# ------------------------------------------------------------------------------------------------
# TLC

PV_LINE = re.compile(r'^<<"PV", (".*")>>$')


class TlcResult:
    def __init__(self, out, rc, wall):
        self.out = out
        self.rc = rc
        self.wall = wall
        self.prints = []
        for line in out.splitlines():
            m = PV_LINE.match(line)
            if m:
                try:
                    self.prints.append(json.loads(json.loads(m.group(1))))
                except Exception:
                    pass
        m = re.search(r"(\d+) states generated, (\d+) distinct states found", out)
        self.generated = int(m.group(1)) if m else 0
        self.distinct = int(m.group(2)) if m else 0
        m = re.search(r"The depth of the complete state graph search is (\d+)", out)
        self.depth = int(m.group(1)) if m else 0
        self.ok = ("Model checking completed. No error has been found." in out) or ("Finished in" in out and "Error:" not in out and rc == 0)
        self.violated = re.findall(r"Error: Invariant (\S+) is violated", out) + re.findall(r"Error: Temporal properties were violated", out)

    def errtext(self):
        keep = [l for l in self.out.splitlines() if not l.startswith('<<"PV"')]
        # the lines around the first "Error:" say what went wrong; the tail is usually a long state trace
        first = next((i for i, l in enumerate(keep) if l.startswith("Error:")), None)
        if first is not None:
            return "\n".join(keep[max(0, first - 2):first + 25] + ["..."] + keep[-6:])
        return "\n".join(keep[-40:])


def write_cfg(path, init="Init", nxt="Next", spec=None, constants=None, invariants=(), properties=(), constraint=None,
              view=None, postcondition=None, symmetry=None, action_constraint=None):
    lines = []
    if spec:
        lines.append(f"SPECIFICATION {spec}")
    else:
        lines += [f"INIT {init}", f"NEXT {nxt}"]
    if constants:
        lines.append("CONSTANTS")
        for k, v in constants.items():
            lines.append(f"  {k} = {v}")
    for i in invariants:
        lines.append(f"INVARIANT {i}")
    for p in properties:
        lines.append(f"PROPERTY {p}")
    if constraint:
        lines.append(f"CONSTRAINT {constraint}")
    if action_constraint:
        lines.append(f"ACTION_CONSTRAINT {action_constraint}")
    if view:
        lines.append(f"VIEW {view}")
    if postcondition:
        lines.append(f"POSTCONDITION {postcondition}")
    lines.append("CHECK_DEADLOCK FALSE")
    Path(path).write_text("\n".join(lines) + "\n")
    return path


_tlc_n = 0


def tlc(module, cfg, env=None, workers=1, xmx="3g", timeout=3600, dfs=False, extra=(), workdir=None, coverage=False):
    """Runs TLC on spec/<module>.tla with config file `cfg`. Returns TlcResult. Tool errors raise."""
    global _tlc_n
    _tlc_n += 1
    wd = Path(workdir or WORK / "tlc")
    meta = wd / f"meta_{os.getpid()}_{_tlc_n}_{int(time.time()*1000)%100000}"
    meta.mkdir(parents=True, exist_ok=True)
    jopts = "-Xss1g"
    if dfs:
        jopts += " -Dtlc2.tool.queue.IStateQueue=StateDeque"
    e = dict(os.environ, JAVA_TOOL_OPTIONS=jopts)
    if env:
        e.update({k: str(v) for k, v in env.items()})
    cmd = ["java", "-XX:+UseParallelGC", f"-Xmx{xmx}", "-cp", JAR, "tlc2.TLC", "-workers", str(workers), "-metadir", str(meta),
           "-cleanup", "-noGenerateSpecTE", "-config", str(cfg)]
    if coverage:
        cmd += ["-coverage", "1"]
    cmd += list(extra) + [str(SPEC / f"{module}.tla")]
    t0 = time.time()
    try:
        p = subprocess.run(cmd, cwd=SPEC, env=e, capture_output=True, text=True, timeout=timeout)
    except subprocess.TimeoutExpired:
        shutil.rmtree(meta, ignore_errors=True)
        raise ToolError(f"TLC timed out after {timeout}s on {module}")
    shutil.rmtree(meta, ignore_errors=True)
    return TlcResult(p.stdout + p.stderr, p.returncode, time.time() - t0)


def tlc_ok(module, cfg, **kw):
    """TLC run that must finish without any error (generators, validators). Otherwise tool error."""
    r = tlc(module, cfg, **kw)
    if not r.ok:
        sys.stderr.write(r.errtext() + "\n")
        raise ToolError(f"TLC failed on {module} ({cfg})")
    return r


def spec_hash(modules=None):
    h = hashlib.sha256()
    files = sorted(SPEC.glob("*.tla")) if not modules else [SPEC / f"{m}.tla" for m in sorted(modules)]
    for m in files:
        h.update(m.read_bytes())
    return h.hexdigest()[:16]


GENERATORS = {}


def generate(module, constants, tag, invariants=("Emit",), workers=4, timeout=1800, env=None, deps=None):
    """(G) role: run a generator spec, return the list of emitted JSON descriptors. Cached by spec hash."""
    gdir = WORK / "gen"
    gdir.mkdir(parents=True, exist_ok=True)
    key = hashlib.sha256((spec_hash(deps) + module + json.dumps(constants, sort_keys=True) + json.dumps(env or {}, sort_keys=True) + str(invariants)).encode()).hexdigest()[:16]
    out = gdir / f"{tag}_{key}.ndjson"
    for old in gdir.glob(f"{tag}_*"):
        if key not in old.name:
            old.unlink()
    stats = gdir / f"{tag}_{key}.stats"
    if out.exists():
        try:
            cached = json.loads(stats.read_text())
        except Exception:
            cached = {}
        GENERATORS[tag] = {"module": module, "descriptors": sum(1 for _ in open(out)), "tlc_distinct_states": cached.get("distinct"), "cached": True}
        return [json.loads(l) for l in out.read_text().splitlines()], 0, 0
    cfg = write_cfg(gdir / f"{tag}_{key}.cfg", constants=constants, invariants=invariants)
    r = tlc_ok(module, cfg, workers=workers, timeout=timeout, env=env)
    recs = [p for p in r.prints]
    tmp = out.with_suffix(".tmp")
    tmp.write_text("".join(json.dumps(x, separators=(",", ":")) + "\n" for x in recs))
    tmp.rename(out)
    stats.write_text(json.dumps({"generated": r.generated, "distinct": r.distinct}))
    # Generator states are reported per generator (coverage.parts.generators), never added to coverage.states: the
    # descriptor files are cached by the hash of the generator's specs and constants, and the evidence of a run must
    # not depend on whether that cache was warm.
    GENERATORS[tag] = {"module": module, "descriptors": len(recs), "tlc_distinct_states": r.distinct, "cached": False}
    return recs, 0, 0


def write_ndjson(path, recs):
    with open(path, "w") as f:
        for r in recs:
            f.write(json.dumps(r, separators=(",", ":")) + "\n")
    return path


def read_ndjson(path):
    out = []
    with open(path) as f:
        for l in f:
            l = l.strip()
            if l:
                out.append(json.loads(l))
    return out


def split_lines(path, n, outdir, stem, boundary=None):
    """Splits an NDJSON file into <= n shard files of consecutive lines; returns [(path, first_line_no, count)].
    With `boundary` (a substring), shards only start at lines containing it (stateful traces: reset events)."""
    lines = Path(path).read_text().splitlines()
    lines = [l for l in lines if l.strip()]
    if not lines:
        return []
    n = max(1, min(n, len(lines)))
    per = (len(lines) + n - 1) // n
    cuts = [0]
    while cuts[-1] + per < len(lines):
        c = cuts[-1] + per
        if boundary is not None:
            while c < len(lines) and boundary not in lines[c]:
                c += 1
        if c >= len(lines):
            break
        cuts.append(c)
    cuts.append(len(lines))
    res = []
    for i in range(len(cuts) - 1):
        chunk = lines[cuts[i]:cuts[i + 1]]
        if not chunk:
            continue
        p = Path(outdir) / f"{stem}_{i}.ndjson"
        p.write_text("\n".join(chunk) + "\n")
        res.append((p, cuts[i], len(chunk)))
    return res


def validate(module, cfg, trace, shards=None, env=None, xmx="2g", timeout=3600, dfs=False, linear=True, boundary=None, kinds=("reject",)):
    """(V) role: TLC judges every record of an NDJSON trace (sharded over processes, one worker each).
    Returns (rejects, stats). A reject is the JSON record TLC printed; its 'l' is made global.
    A TLC error (not a judgement) is a tool error."""
    shards = shards or min(NCPU, 12)
    sdir = WORK / "shards"
    sdir.mkdir(parents=True, exist_ok=True)
    parts = split_lines(trace, shards if linear else 1, sdir, Path(trace).stem + f"_{os.getpid()}", boundary)
    if not parts:
        # an empty trace validates nothing: never let a check pass vacuously
        raise ToolError(f"empty trace {trace}: the harness recorded nothing for {module}")

    def one(part):
        p, off, cnt = part
        e = dict(env or {})
        e["TRACE"] = str(p)
        r = tlc(module, cfg, env=e, workers=1, xmx=xmx, timeout=timeout, dfs=dfs)
        return r, off, cnt, p

    rejects, gen, dist, wall = [], 0, 0, 0.0
    t0 = time.time()
    with cf.ThreadPoolExecutor(max_workers=len(parts)) as ex:
        for r, off, cnt, p in ex.map(one, parts):
            if not r.ok:
                sys.stderr.write(r.errtext() + "\n")
                raise ToolError(f"TLC failed while validating {p} with {module}")
            if linear and r.distinct != cnt + 1:
                sys.stderr.write(r.errtext() + "\n")
                raise ToolError(f"TLC consumed {r.distinct - 1} of {cnt} records of {p}")
            for pr in r.prints:
                if pr.get("k") in kinds:
                    pr = dict(pr)
                    pr["l"] = pr.get("l", 0) + off
                    rejects.append(pr)
            gen += r.generated
            dist += r.distinct
            try:
                os.remove(p)
            except OSError:
                pass
    return rejects, {"records": sum(c for _, _, c in parts), "generated": gen, "distinct": dist, "wall": time.time() - t0}


# ------------------------------------------------------------------------------------------------
# known findings, verdicts, evidence

def load_known():
    p = VERIF / "known_findings.json"
    if not p.exists():
        return []
    return json.loads(p.read_text()).get("findings", [])


def matches(entry, prop, sig):
    if entry.get("status") == "fixed":
        return False  # a fixed entry suppresses nothing
    if entry.get("property") != prop:
        return False
    for k, v in entry.get("match", {}).items():
        s = sig.get(k)
        if isinstance(v, list):
            if s not in v:
                return False
        elif s != v:
            return False
    return True


class Check:
    """One run of one property's check."""

    def __init__(self, prop, tier, level):
        self.prop, self.tier, self.level = prop, tier, level
        self.t0 = time.time()
        self.work = WORK / prop
        if self.work.exists():
            shutil.rmtree(self.work, ignore_errors=True)
        (self.work / "replay").mkdir(parents=True, exist_ok=True)
        self.known = load_known()
        self.violations = []   # (sig, replay_path)
        self.known_hits = {}   # id -> count
        self.cov = {"states": 0, "transitions": 0, "traces_validated_against_impl": 0, "samples": [],
                    "evaluations": 0, "distinct_nontrivial": 0, "rule": "", "parts": {}}
        self.assumptions = []
        self.nviol = 0
        self.sig_counts = {}

    def thorough(self):
        return self.tier == "thorough"

    def add_states(self, generated, distinct):
        self.cov["transitions"] += int(generated)
        self.cov["states"] += int(distinct)

    def part(self, name, **kw):
        self.cov["parts"].setdefault(name, {}).update(kw)

    def sample(self, x, limit=4):
        if len(self.cov["samples"]) < limit:
            s = json.dumps(x)
            if len(s) > 1500:
                s = s[:1500] + "...(truncated)"
                self.cov["samples"].append(s)
            else:
                self.cov["samples"].append(x)

    def report(self, sig, detail):
        """A judgement by TLC that the property's relation is false on something the real code did."""
        for e in self.known:
            if matches(e, self.prop, sig):
                self.known_hits[e["id"]] = self.known_hits.get(e["id"], 0) + 1
                return
        self.nviol += 1
        key = json.dumps(sig, sort_keys=True)
        self.sig_counts[key] = self.sig_counts.get(key, 0) + 1
        if self.sig_counts[key] <= 3 and len(self.violations) < 40:
            path = self.work / "replay" / f"{len(self.violations)+1}.json"
            path.write_text(json.dumps({"property": self.prop, "sig": sig, "detail": detail}, indent=1))
            self.violations.append((sig, path))

    def finish(self):
        wall = time.time() - self.t0
        for e in self.known:
            if e["id"] in self.known_hits:
                print(f"KNOWN-FINDING: property={self.prop} {e['what']} [{e['id']}, {self.known_hits[e['id']]} occurrence(s)]")
        cov = self.cov
        cov["known_findings_seen"] = self.known_hits
        cov["violation_signatures"] = self.sig_counts
        if GENERATORS:
            cov["parts"]["generators"] = dict(GENERATORS)
        if not cov["rule"]:
            cov.pop("rule")
        ev = {"property_id": self.prop, "tier": self.tier, "seed": seed(), "level": self.level, "coverage": cov,
              "assumptions": self.assumptions, "wall_s": round(wall, 1), "violations": self.nviol}
        EVID.mkdir(exist_ok=True)
        (EVID / f"{self.prop}.json").write_text(json.dumps(ev, indent=1) + "\n")
        for sig, path in self.violations:
            print(f"VIOLATION property={self.prop} replay={path} sig={json.dumps(sig, sort_keys=True)}")
        log(f"{self.prop} {self.tier}: {'FAIL' if self.violations else 'ok'} in {wall:.0f}s; states={cov['states']} traces={cov['traces_validated_against_impl']}")
        return 1 if self.violations else 0


def subsample(recs, n, sd):
    """deterministic subsample of at most n records (seeded)"""
    if len(recs) <= n:
        return recs
    import random
    rnd = random.Random(sd)
    idx = sorted(rnd.sample(range(len(recs)), n))
    return [recs[i] for i in idx]
