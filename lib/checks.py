"""Per-property checks.  Every check is: (M) model-check the implementation-shaped machine where there is
one, (G) let TLC generate inputs / behaviours, run them through the real code with the harness, (V) let TLC
judge the recorded trace with the property's own relation.  The driver only classifies TLC's judgements."""
import json
import os
from pathlib import Path

import pv
from pv import Check, ToolError, log

SMALL_Q = [1, 2]
SMALL_T = [1, 2, 3, 4]
WIDE_Q = [8, 33, 65, 129]
WIDE_T = [8, 31, 32, 33, 63, 64, 65, 127, 128, 129]


def is_depth1(rec):
    return all(n["op"] in ("bvsym", "bvlit", "arrsym") for n in rec["nodes"][:-1])


def expr_corpus(chk, small, wide):
    """(G) TLC enumerates the expression shapes of ExprGen.tla. Returns {('small'|'wide', wd): [descriptors]}."""
    out = {}
    for mode, wds in (("small", small), ("wide", wide)):
        for wd in wds:
            recs, gen, dist = pv.generate("ExprGen", {"WD": wd, "Mode": f'"{mode}"'}, f"exprs_{mode}_{wd}",
                                          invariants=("GenWellTyped", "Emit"), workers=4)
            if gen:
                chk.add_states(gen, dist)
            out[(mode, wd)] = recs
    return out


def harness_rejects(rejects):
    bad = [r for r in rejects if str(r.get("why", "")).startswith("harness:")]
    if bad:
        raise ToolError(f"the harness produced an input outside the property's domain: {bad[0]}")


# ------------------------------------------------------------------------------------------------
def c06(tier, replay=None):
    chk = Check("C06", tier, "model_checking")
    T = chk.thorough()
    # (M) the semantic kernel itself: BV.tla against an independent integer formulation
    cfg = pv.write_cfg(chk.work / "BVSelfTest.cfg", constants={"MaxW": 5 if T else 4}, invariants=("Agree",))
    r = pv.tlc_ok("BVSelfTest", cfg, workers=8, timeout=1800)
    chk.add_states(r.generated, r.distinct)
    chk.part("BVSelfTest", states=r.distinct, max_width=5 if T else 4)
    trace = chk.work / "trace.ndjson"
    if replay:
        rep = json.loads(Path(replay).read_text())
        pv.write_ndjson(chk.work / "in.ndjson", [rep["detail"]["input"]])
        nrandom = 0
    else:
        corpus = expr_corpus(chk, SMALL_T if T else SMALL_Q + [3], WIDE_T if T else WIDE_Q)
        recs = []
        for (mode, wd), rs in corpus.items():
            d1 = [x for x in rs if is_depth1(x)]
            d2 = [x for x in rs if not is_depth1(x)]
            recs += d1 if (T or mode == "small") else pv.subsample(d1, 2500, pv.seed() + wd)
            recs += pv.subsample(d2, (6000 if T else 700) if mode == "small" else (2500 if T else 300), pv.seed() + wd)
        pv.write_ndjson(chk.work / "in.ndjson", recs)
        nrandom = 4000 if T else 400
    p = pv.pv(["c06", "--in", chk.work / "in.ndjson", "--out", trace, "--random", nrandom, "--nrand", 8])
    info = json.loads(p.stdout.strip().splitlines()[-1])
    rejects, st = pv.validate("Trace_C06", pv.SPEC / "Trace.cfg", trace, shards=14)
    harness_rejects(rejects)
    chk.add_states(st["generated"], st["distinct"])
    chk.cov["traces_validated_against_impl"] = st["records"]
    nruns = 0
    by_l = None
    if rejects:
        by_l = pv.read_ndjson(trace)
    for rj in rejects:
        rec = by_l[rj["l"] - 1]
        loc = ""
        for pn in rec.get("panics", []):
            if pn["run"] == rj["run"] or rj["why"] == "panic":
                loc = pn["loc"]
                break
        ops = sorted({n["op"] for n in rec["nodes"]})
        sig = {"why": rj["why"], "loc": loc, "cls": rj.get("cls", "")}
        chk.report(sig, {"input": {"nodes": rec["nodes"], "root": rec["root"]}, "run": rec["runs"][rj["run"] - 1] if rj["run"] else None,
                         "ops": ops, "tlc": rj})
    with open(trace) as f:
        for i, line in enumerate(f):
            rec = json.loads(line)
            nruns += len(rec["runs"])
            if i % 997 == 0:
                chk.sample({"id": rec["id"], "nodes": [[n["op"], n["w"], n["a"]] for n in rec["nodes"]], "assignments": len(rec["runs"]),
                            "exhaustive": rec["exhaustive"], "first_run": rec["runs"][0]})
    chk.cov["evaluations"] = nruns
    chk.cov["distinct_nontrivial"] = st["records"]
    chk.cov["rule"] = ("every expression emitted by ExprGen.tla (all implemented operators x operand kinds x widths 1-4 with all literals; "
                       "boundary widths with boundary literal shapes) plus seeded random DAGs; each evaluated by the real evaluators under all "
                       "assignments (<=10 symbol bits) or 64 corner + 8 random assignments; distinct = distinct expression records")
    chk.part("harness", **info)
    chk.assumptions += ["BV.tla/Expr.tla are the definition of SMT-LIB semantics (self-tested against integers to width 4-5)",
                        "division/remainder operators are excluded (documented as unimplemented in eval.rs)",
                        "for-all-assignments is exhaustive only up to 10 symbol bits; sampled above"]
    return chk.finish()
