"""Per-property checks.  Every check is: (M) model-check the implementation-shaped machine where there is
one, (G) let TLC generate inputs / behaviours, run them through the real code with the harness, (V) let TLC
judge the recorded trace with the property's own relation.  The driver only classifies TLC's judgements."""
import json
import os
import subprocess
from pathlib import Path

import pv
from pv import Check, ToolError, log

SMALL_Q = [1, 2]
SMALL_T = [1, 2, 3, 4]
WIDE_Q = [8, 33, 65, 129]
WIDE_T = [8, 31, 32, 33, 63, 64, 65, 127, 128, 129]


def is_depth1(rec):
    return all(n["op"] in ("bvsym", "bvlit", "arrsym") for n in rec["nodes"][:-1])


def expr_corpus(chk, small, wide):
    """(G) TLC enumerates the expression shapes of ExprGen.tla. Returns {('small'|'wide', wd): [descriptors]}."""
    out = {}
    for mode, wds in (("small", small), ("wide", wide)):
        for wd in wds:
            recs, gen, dist = pv.generate("ExprGen", {"WD": wd, "Mode": f'"{mode}"'}, f"exprs_{mode}_{wd}",
                                          invariants=("GenWellTyped", "Emit"), workers=4, deps=["ExprGen", "Expr", "BV"])
            if gen:
                chk.add_states(gen, dist)
            out[(mode, wd)] = recs
    return out


def harness_rejects(rejects):
    bad = [r for r in rejects if str(r.get("why", "")).startswith("harness:")]
    if bad:
        raise ToolError(f"the harness produced an input outside the property's domain: {bad[0]}")


# ------------------------------------------------------------------------------------------------
def c06(tier, replay=None):
    chk = Check("C06", tier, "model_checking")
    T = chk.thorough()
    # (M) the semantic kernel itself: BV.tla against an independent integer formulation
    cfg = pv.write_cfg(chk.work / "BVSelfTest.cfg", constants={"MaxW": 5 if T else 4}, invariants=("Agree",))
    r = pv.tlc_ok("BVSelfTest", cfg, workers=8, timeout=1800)
    chk.add_states(r.generated, r.distinct)
    chk.part("BVSelfTest", states=r.distinct, max_width=5 if T else 4)
    trace = chk.work / "trace.ndjson"
    if replay:
        rep = json.loads(Path(replay).read_text())
        pv.write_ndjson(chk.work / "in.ndjson", [rep["detail"]["input"]])
        nrandom = 0
    else:
        corpus = expr_corpus(chk, SMALL_T if T else SMALL_Q + [3], WIDE_T if T else WIDE_Q)
        recs = []
        for (mode, wd), rs in corpus.items():
            # always: depth-1 shapes and every shape with a nested array operator (few); other depth-2 shapes are sampled
            def has_arr(x):
                return any(n["op"] in ("arrite", "store", "arreq", "arrconst") for n in x["nodes"])
            full_arr = mode == "small" and (T or wd == 1)
            d1 = [x for x in rs if is_depth1(x) or (full_arr and has_arr(x))]
            d2 = [x for x in rs if not (is_depth1(x) or (full_arr and has_arr(x)))]
            recs += d1 if (T or mode == "small") else pv.subsample(d1, 2500, pv.seed() + wd)
            recs += pv.subsample(d2, (6000 if T else 700) if mode == "small" else (2500 if T else 300), pv.seed() + wd)
        pv.write_ndjson(chk.work / "in.ndjson", recs)
        nrandom = 4000 if T else 400
    p = pv.pv(["c06", "--in", chk.work / "in.ndjson", "--out", trace, "--random", nrandom, "--nrand", 8])
    info = json.loads(p.stdout.strip().splitlines()[-1])
    rejects, st = pv.validate("Trace_C06", pv.SPEC / "Trace.cfg", trace, shards=14)
    harness_rejects(rejects)
    chk.add_states(st["generated"], st["distinct"])
    chk.cov["traces_validated_against_impl"] = st["records"]
    nruns = 0
    by_l = None
    if rejects:
        by_l = pv.read_ndjson(trace)
    for rj in rejects:
        rec = by_l[rj["l"] - 1]
        loc = ""
        for pn in rec.get("panics", []):
            if pn["run"] == rj["run"] or rj["why"] == "panic":
                loc = pn["loc"]
                break
        ops = sorted({n["op"] for n in rec["nodes"]})
        sig = {"why": rj["why"], "loc": loc, "cls": rj.get("cls", "")}
        chk.report(sig, {"input": {"nodes": rec["nodes"], "root": rec["root"]}, "run": rec["runs"][rj["run"] - 1] if rj["run"] else None,
                         "ops": ops, "tlc": rj})
    with open(trace) as f:
        for i, line in enumerate(f):
            rec = json.loads(line)
            nruns += len(rec["runs"])
            if i % 997 == 0:
                chk.sample({"id": rec["id"], "nodes": [[n["op"], n["w"], n["a"]] for n in rec["nodes"]], "assignments": len(rec["runs"]),
                            "exhaustive": rec["exhaustive"], "first_run": rec["runs"][0]})
    chk.cov["evaluations"] = nruns
    chk.cov["distinct_nontrivial"] = st["records"]
    chk.cov["rule"] = ("every expression emitted by ExprGen.tla (all implemented operators x operand kinds x widths 1-4 with all literals; "
                       "boundary widths with boundary literal shapes) plus seeded random DAGs; each evaluated by the real evaluators under all "
                       "assignments (<=10 symbol bits) or 64 corner + 8 random assignments; distinct = distinct expression records")
    chk.part("harness", **info)
    chk.assumptions += ["BV.tla/Expr.tla are the definition of SMT-LIB semantics (self-tested against integers to width 4-5)",
                        "division/remainder operators are excluded (documented as unimplemented in eval.rs)",
                        "for-all-assignments is exhaustive only up to 10 symbol bits; sampled above"]
    return chk.finish()


# ------------------------------------------------------------------------------------------------
def simp_inputs(chk, T):
    corpus = expr_corpus(chk, SMALL_T if T else SMALL_Q + [3], WIDE_T if T else WIDE_Q)
    recs = []
    for (mode, wd), rs in corpus.items():
        # roots with one operand (not / neg / extensions / slices over every operand kind) and ite roots are few:
        # always all of them; binary roots are subsampled in the quick tier
        una = [x for x in rs if len(x["nodes"][-1]["a"]) != 2]
        bina = [x for x in rs if len(x["nodes"][-1]["a"]) == 2]
        if mode == "small":
            recs += rs if T else una + pv.subsample(bina, 3500 if wd <= 2 else 2500, pv.seed() + wd)
        else:
            recs += rs if T else pv.subsample(una, 600, pv.seed() + wd) + pv.subsample(bina, 1200, pv.seed() + wd)
    return recs


def c01(tier, replay=None):
    chk = Check("C01", tier, "model_checking")
    T = chk.thorough()
    trace = chk.work / "trace.ndjson"
    if replay:
        rep = json.loads(Path(replay).read_text())
        pv.write_ndjson(chk.work / "in.ndjson", [rep["detail"]["input"]])
        nrandom = 0
    else:
        pv.write_ndjson(chk.work / "in.ndjson", simp_inputs(chk, T))
        nrandom = 20000 if T else 1500
    p = pv.pv(["c01", "--in", chk.work / "in.ndjson", "--out", trace, "--random", nrandom])
    info = json.loads(p.stdout.strip().splitlines()[-1])
    rejects, st = pv.validate("Trace_C01", pv.SPEC / "Trace.cfg", trace, shards=14)
    harness_rejects(rejects)
    chk.add_states(st["generated"], st["distinct"])
    chk.cov["traces_validated_against_impl"] = st["records"]
    lines = Path(trace).read_text().splitlines()
    for rj in rejects:
        rec = json.loads(lines[rj["l"] - 1])
        sig = {"why": rj["why"], "loc": rj.get("loc", "")}
        chk.report(sig, {"input": {"nodes": rec["nodes"], "root": rec["root"]}, "outs": rec["outs"], "tlc": rj})
    # (M) the transcription of the rule set: sound as designed on every small-width record, drift vs the real code
    # (the nested-record form has no sharing: only the TLC-generated shapes, not the random DAGs)
    glines = [x for x in lines if '"id":"g' in x]
    small = chk.work / "rules.ndjson"
    small.write_text("\n".join(glines if T else pv.subsample(glines, 4000, pv.seed())) + "\n")
    rlines = small.read_text().splitlines()
    model, st2 = pv.validate("Rules_C01", pv.SPEC / "Trace.cfg", small, shards=14, kinds=("model",))
    chk.add_states(st2["generated"], st2["distinct"])
    tally = {}
    for m in model:
        tally[m["why"]] = tally.get(m["why"], 0) + 1
    tally["same"] = st2["records"] - sum(tally.values())
    chk.part("SimplifyRules_transcription", **tally)
    if tally.get("model-unsound", 0) or tally.get("model-diverges", 0):
        # the rules *as designed* (transcribed) are unsound on an input: a design-level finding, judged by TLC
        for m in model:
            if m["why"] in ("model-unsound", "model-diverges"):
                rec = json.loads(rlines[m["l"] - 1])
                chk.report({"why": "design: " + m["why"], "loc": ""}, {"input": {"nodes": rec["nodes"], "root": rec["root"]}, "tlc": m})
    for i in range(0, len(lines), max(1, len(lines) // 3)):
        rec = json.loads(lines[i])
        chk.sample({"id": rec["id"], "nodes": [[n["op"], n["w"], n["a"]] for n in rec["nodes"]], "root": rec["root"], "outs": rec["outs"]})
    chk.cov["evaluations"] = st["records"]
    chk.cov["distinct_nontrivial"] = st["records"]
    chk.cov["rule"] = ("every expression emitted by ExprGen.tla (small widths: all operand kinds incl. all literals; boundary widths: boundary "
                       "literal shapes, shift amounts >= width and >= 2^32) plus seeded random depth 2-4 DAGs; each simplified through four entry "
                       "points; TLC judges type, well-typedness and value under all / corner+random assignments, for results and every cache entry")
    chk.part("harness", **info)
    chk.assumptions += ["for-all-assignments is exhaustive only up to 10 symbol bits; 64 corner + 12 seeded random assignments above",
                        "Expr.tla/BV.tla define the meaning (self-tested in C06)"]
    return chk.finish()


def c13(tier, replay=None):
    chk = Check("C13", tier, "model_checking")
    T = chk.thorough()
    # (M) the rewriting driver + cache (do_transform_expr / get_fixed_point / persistent cache) for every rule table
    cfg = pv.write_cfg(chk.work / "SimplifierCache.cfg", invariants=("Inv",))
    r = pv.tlc("SimplifierCache", cfg, workers=8, timeout=1800)
    if not r.ok:
        raise ToolError("SimplifierCache model: " + r.errtext()[-2000:])
    chk.add_states(r.generated, r.distinct)
    chk.part("SimplifierCache_model", states=r.distinct, note="all rule tables over {x,y,f(x),f(y)} x all two-call histories")
    trace = chk.work / "trace.ndjson"
    if replay:
        rep = json.loads(Path(replay).read_text())
        pv.write_ndjson(chk.work / "in.ndjson", rep["detail"]["batch_inputs"])
        nrandom = 0
    else:
        recs = simp_inputs(chk, T)
        recs = pv.subsample(recs, 60000 if T else 8000, pv.seed())
        pv.write_ndjson(chk.work / "in.ndjson", recs)
        nrandom = 5000 if T else 500
    p = pv.pv(["c13", "--in", chk.work / "in.ndjson", "--out", trace, "--random", nrandom, "--batch", 4], check=False)
    if p.returncode not in (0, 3):
        raise ToolError("c13 harness failed: " + p.stderr[-2000:])
    tmo = Path(str(trace) + ".timeout")
    if tmo.exists():
        with open(trace, "a") as f:
            f.write(tmo.read_text())
    rejects, st = pv.validate("Trace_C13", pv.SPEC / "Trace.cfg", trace, shards=12, boundary='"ev":"Batch"')
    chk.add_states(st["generated"], st["distinct"])
    chk.cov["traces_validated_against_impl"] = st["records"]
    lines = None
    nb = 0
    for rj in rejects:
        if lines is None:
            lines = Path(trace).read_text().splitlines()
        # find the Batch record of this event
        k = rj["l"] - 1
        while k > 0 and '"ev":"Batch"' not in lines[k]:
            k -= 1
        b = json.loads(lines[k])
        binputs = [{"nodes": b.get("nodes", []), "root": rt} for rt in b.get("roots", [])]
        chk.report({"why": rj["why"], "loc": rj.get("loc", ""), "cache": rj.get("cache", "")}, {"batch_inputs": binputs, "event": rj})
    with open(trace) as f:
        for line in f:
            if '"ev":"Batch"' in line:
                nb += 1
                if nb % 700 == 1:
                    b = json.loads(line)
                    chk.sample({"batch": b["batch"], "roots": b["roots"], "nodes": [[n["op"], n["w"], n["a"]] for n in b["nodes"]]})
    chk.cov["evaluations"] = st["records"]
    chk.cov["distinct_nontrivial"] = nb
    chk.cov["rule"] = ("batches of 4-5 expressions (ExprGen.tla shapes + one root built over the others; random roots built over each other) in one "
                       "Context; each simplified by fresh instances, one sparse-cache instance in random order + re-simplification of results, one "
                       "dense-cache instance in reverse order, the system-wide pass, fresh instances again; distinct = batches")
    chk.assumptions += ["termination of the real code is observed by a 60 s watchdog, termination of the modelled driver is checked by TLC"]
    return chk.finish()


# ------------------------------------------------------------------------------------------------
def c12(tier, replay=None):
    chk = Check("C12", tier, "model_checking")
    T = chk.thorough()
    # (M) the interner design: all build histories up to MaxCalls
    cfg = pv.write_cfg(chk.work / "Interner.cfg", spec="Spec", constants={"MaxCalls": 4},
                       invariants=("Canonical", "ConstsFixed", "SameCallSameRef"), properties=("Stable",))
    r = pv.tlc_ok("Interner", cfg, workers=8, timeout=3000)
    chk.add_states(r.generated, r.distinct)
    chk.part("Interner_model", states=r.distinct, max_calls=4)
    # (G) every behaviour of 3 calls, replayed on the real Context
    behs, gen, dist = pv.generate("Interner", {"MaxCalls": 3}, "interner_beh", invariants=("Emit",), workers=8, deps=["Interner"])
    trace = chk.work / "trace.ndjson"
    if replay:
        rep = json.loads(Path(replay).read_text())
        Path(trace).write_text("\n".join(json.dumps(x) for x in rep["detail"]["events"]) + "\n")
        info = {}
    else:
        pv.write_ndjson(chk.work / "beh.ndjson", behs)
        p = pv.pv(["c12", "--in", chk.work / "beh.ndjson", "--out", trace, "--histories", 12 if T else 3, "--len", 50000 if T else 6000])
        info = json.loads(p.stdout.strip().splitlines()[-1])
    rejects, st = pv.validate("Trace_C12", pv.SPEC / "Trace.cfg", trace, shards=12, boundary='"ev":"Reset"')
    chk.add_states(st["generated"], st["distinct"])
    chk.cov["traces_validated_against_impl"] = info.get("behaviours", 1)
    lines = None
    for rj in rejects:
        if lines is None:
            lines = Path(trace).read_text().splitlines()
        k = rj["l"] - 1
        s = k
        while s > 0 and '"ev":"Reset"' not in lines[s]:
            s -= 1
        evs = [json.loads(x) for x in lines[s:k + 1]]
        chk.report({"why": rj["why"], "ev": rj.get("ev", "")}, {"events": evs[-400:] if len(evs) > 400 else evs, "tlc": rj})
    chk.sample({"behaviour": behs[len(behs) // 2]})
    chk.cov["evaluations"] = st["records"]
    chk.cov["distinct_nontrivial"] = info.get("behaviours", 1)
    chk.cov["rule"] = ("all 3-call behaviours of Interner.tla replayed on fresh Contexts + long seeded random build histories mixing all builder "
                       "methods, literals produced by different computations, re-builds and look-ups; distinct = behaviours/histories")
    chk.part("harness", **info)
    return chk.finish()


# ------------------------------------------------------------------------------------------------
def segment(lines, k, marker):
    """the events from the last `marker` line up to line k (0-based) of a stateful trace"""
    s = k
    while s > 0 and marker not in lines[s]:
        s -= 1
    return [json.loads(x) for x in lines[s:k + 1]]


def stateful_check(chk, module, trace, marker, sigf, shards=12, keep=60):
    """validate a stateful trace sharded at reset markers; report every TLC rejection with its segment"""
    rejects, st = pv.validate(module, pv.SPEC / "Trace.cfg", trace, shards=shards, boundary=marker)
    harness_rejects(rejects)
    chk.add_states(st["generated"], st["distinct"])
    lines = None
    for rj in rejects:
        if lines is None:
            lines = Path(trace).read_text().splitlines()
        seg = segment(lines, rj["l"] - 1, marker)
        chk.report(sigf(rj, seg), {"events": seg[:1] + seg[-keep:] if len(seg) > keep + 1 else seg, "tlc": rj})
    return st


def c07(tier, replay=None):
    chk = Check("C07", tier, "model_checking")
    T = chk.thorough()
    trace = chk.work / "trace.ndjson"
    hist, gen, dist = pv.generate("SimGen", {"Depth": 5 if T else 4}, "simgen", workers=4, deps=["SimGen"])
    if gen:
        chk.add_states(gen, dist)
    if replay:
        rep = json.loads(Path(replay).read_text())
        pv.write_ndjson(trace, rep["detail"]["events"])
        info = {"histories": 1}
    else:
        pv.write_ndjson(chk.work / "hist.ndjson", hist)
        p = pv.pv(["c07", "--in", chk.work / "hist.ndjson", "--out", trace, "--systems", 3000 if T else 400, "--len", 120 if T else 40])
        info = json.loads(p.stdout.strip().splitlines()[-1])
    st = stateful_check(chk, "Trace_C07", trace, '"ev":"Sys"', lambda rj, seg: {"why": rj["why"], "ev": rj.get("ev", ""), "loc": seg[-1].get("loc", "")})
    chk.cov["traces_validated_against_impl"] = info["histories"]
    chk.cov["evaluations"] = st["records"]
    chk.cov["distinct_nontrivial"] = info["histories"]
    chk.cov["rule"] = (f"all {len(hist)} call histories of length {5 if T else 4} from SimGen.tla on four fixed systems (swap, init chain, array memory + "
                       "constant/next-less states, 65/129-bit values) + seeded random systems x random histories; after every call the full store is "
                       "read back and compared by TLC with the Sim machine of Trace_C07; distinct = histories")
    chk.sample({"history": hist[len(hist) // 2]})
    chk.part("harness", **info)
    chk.assumptions += ["random initialisation is only constrained as far as the property goes (init expressions hold; same seed, same values)",
                        "restore may or may not restore inputs (trait doc and code disagree; the property is silent)"]
    return chk.finish()


# ------------------------------------------------------------------------------------------------
def batch_check(chk, module, trace, sigf, detailf, shards=12, kinds=("reject",)):
    """validate a stateless batch trace; report every TLC rejection"""
    rejects, st = pv.validate(module, pv.SPEC / "Trace.cfg", trace, shards=shards, kinds=kinds)
    harness_rejects(rejects)
    chk.add_states(st["generated"], st["distinct"])
    lines = None
    for rj in rejects:
        if lines is None:
            lines = Path(trace).read_text().splitlines()
        rec = json.loads(lines[rj["l"] - 1])
        chk.report(sigf(rj, rec), detailf(rj, rec))
    return st


def sample_lines(chk, trace, n=3, proj=lambda r: r):
    lines = Path(trace).read_text().splitlines()
    for i in range(0, len(lines), max(1, len(lines) // n)):
        chk.sample(proj(json.loads(lines[i])))
    return len(lines)


def c16(tier, replay=None):
    chk = Check("C16", tier, "model_checking")
    T = chk.thorough()
    # (M) printer + reader line-state machine over abstract witnesses; the same run emits every stream (G)
    cfg = pv.write_cfg(chk.work / "WitnessReader.cfg", invariants=("RoundTrip", "NoPanic"))
    r = pv.tlc_ok("WitnessReader", cfg, workers=8, timeout=1800)
    chk.add_states(r.generated, r.distinct)
    chk.part("WitnessReader_model", states=r.distinct)
    streams, gen, dist = pv.generate("WitnessReader", {}, "witstreams", invariants=("EmitWs",), workers=4, deps=["WitnessReader"])
    trace = chk.work / "trace.ndjson"
    if replay:
        rep = json.loads(Path(replay).read_text())
        pv.write_ndjson(trace, [rep["detail"]["record"]])
        info = {"records": 1}
    else:
        pv.write_ndjson(chk.work / "in.ndjson", streams)
        p = pv.pv(["c16", "--in", chk.work / "in.ndjson", "--out", trace, "--random", 30000 if T else 4000])
        info = json.loads(p.stdout.strip().splitlines()[-1])
    st = batch_check(chk, "Trace_C16", trace, lambda rj, rec: {"why": rj["why"], "loc": rj.get("loc", "")[:120]},
                     lambda rj, rec: {"record": rec, "tlc": rj})
    chk.cov["traces_validated_against_impl"] = st["records"]
    chk.cov["evaluations"] = st["records"]
    chk.cov["distinct_nontrivial"] = st["records"]
    chk.cov["rule"] = (f"all {len(streams)} witness streams of the WitnessReader model (1-2 witnesses, bv / array states with 1-2 recorded entries incl. "
                       "zero-valued, 0-2 inputs x 1-2 steps, parse_max 1-2) at three width profiles + seeded random streams (up to 129-bit values, "
                       "65-bit indices, overwritten and zero entries, parse_max <= stream length)")
    sample_lines(chk, trace, 2, lambda r: {"id": r["id"], "text": r["text"], "parse_max": r["parse_max"]})
    chk.part("harness", **info)
    chk.assumptions += ["domain: complete witnesses (>= 1 failed property, a value for every input, >= 1 recorded index per array state, bit-vector inputs)"]
    return chk.finish()


# ------------------------------------------------------------------------------------------------
def c20(tier, replay=None):
    chk = Check("C20", tier, "model_checking")
    T = chk.thorough()
    # (M) operations other than coalesce, all operation sequences to MaxDepth over two terminals
    cfg = pv.write_cfg(chk.work / "ValueSummary.cfg", constants={"NV": 4, "MaxDepth": 6 if T else 5}, invariants=("Ok",))
    r = pv.tlc_ok("ValueSummary", cfg, workers=8, timeout=3000)
    chk.add_states(r.generated, r.distinct)
    chk.part("ValueSummary_model", states=r.distinct)
    # (M) coalesce_entries + delete_entries as in the (repaired) code, over all ordered partitions
    cc = {"Vals": '{"a", "b", "c"}' if T else '{"a", "b"}', "NV": 4, "SortDeleteList": "TRUE"}
    cfg = pv.write_cfg(chk.work / "Coalesce.cfg", constants=cc, invariants=("Ok",))
    r = pv.tlc_ok("Coalesce", cfg, workers=8, timeout=3000)
    chk.add_states(r.generated, r.distinct)
    chk.part("Coalesce_model", states=r.distinct)
    # non-vacuity of the model: with the unsorted delete list the invariant must fail
    cfg = pv.write_cfg(chk.work / "CoalesceNeg.cfg", constants={"Vals": '{"a", "b"}', "NV": 4, "SortDeleteList": "FALSE"}, invariants=("Ok",))
    rn = pv.tlc("Coalesce", cfg, workers=4, timeout=600)
    if "Ok" not in rn.violated:
        raise ToolError("Coalesce model no longer distinguishes the sorted from the unsorted delete list")
    parts, gen, dist = pv.generate("Coalesce", {"Vals": '{"a", "b"}', "NV": 4, "SortDeleteList": "TRUE"}, "coalesce_parts", workers=4, deps=["Coalesce"])
    trace = chk.work / "trace.ndjson"
    if replay:
        rep = json.loads(Path(replay).read_text())
        pv.write_ndjson(trace, [rep["detail"]["record"]])
        info = {"records": 1, "recipes": 1}
    else:
        pv.write_ndjson(chk.work / "in.ndjson", parts)
        jobs = [(["c20", "--in", chk.work / "in.ndjson", "--out", chk.work / "t0.ndjson", "--random", 6000 if T else 1200, "--terminals", 2], None),
                (["c20", "--out", chk.work / "t1.ndjson", "--random", 3000 if T else 500, "--terminals", 3], {"VERIF_SEED": pv.seed() + 1}),
                (["c20", "--out", chk.work / "t2.ndjson", "--random", 1500 if T else 150, "--terminals", 4], {"VERIF_SEED": pv.seed() + 2})]
        res = pv.pv_parallel(jobs)
        info = {"records": 0, "recipes": 0}
        with open(trace, "w") as f:
            for k, p in enumerate(res):
                i = json.loads(p.stdout.strip().splitlines()[-1])
                info["records"] += i["records"]
                info["recipes"] += i["recipes"]
                f.write((chk.work / f"t{k}.ndjson").read_text())
    st = batch_check(chk, "Trace_C20", trace, lambda rj, rec: {"why": rj["why"], "op": rj.get("op", ""), "loc": rj.get("loc", "")},
                     lambda rj, rec: {"record": rec, "tlc": rj}, shards=14)
    chk.cov["traces_validated_against_impl"] = info["recipes"]
    chk.cov["evaluations"] = st["records"]
    chk.cov["distinct_nontrivial"] = info["recipes"]
    chk.cov["rule"] = (f"all {len(parts)} ordered partitions (<= 4 entries, 2 values) of the Coalesce model built with ite chains and coalesced on the real "
                       "ValueSummary + seeded random operation recipes (new / apply_bin_op / apply_ite / coalesce / import_into_guard / expr_to_guard, "
                       "2-4 Boolean terminals plus non-Boolean 1-bit sub-terms over two 2-bit symbols); after every operation the guards are tabulated "
                       "over all assignments through the hook; distinct = recipes")
    sample_lines(chk, trace, 2, lambda r: {"id": r["id"], "op": r["op"], "entries": [{"g": "".join(map(str, e["g"])), "v": e["v"]} for e in r["entries"]], "den": r["den"],
                                          "nodes": [[n["op"], n["name"], n["a"]] for n in r["nodes"]]})
    chk.part("harness", **info)
    return chk.finish()


# ------------------------------------------------------------------------------------------------
def syseq_check(prop, tier, replay, cmd, rule, gen_n, level="translation_validation"):
    chk = Check(prop, tier, level)
    T = chk.thorough()
    trace = chk.work / "trace.ndjson"
    if replay:
        rep = json.loads(Path(replay).read_text())
        pv.write_ndjson(trace, [rep["detail"]["record"]])
        info = {"records": 1, "systems": 1}
    else:
        p = pv.pv([cmd, "--out", trace, "--systems", gen_n[1] if T else gen_n[0], "--max-kb", 100000 if T else 24, "--nenv", 8])
        info = json.loads(p.stdout.strip().splitlines()[-1])
    st = batch_check(chk, "Trace_SysEq", trace, lambda rj, rec: {"why": rj["why"], "kind": rj.get("kind", ""), "loc": rj.get("loc", "")[:160]},
                     lambda rj, rec: {"record": rec, "tlc": rj}, shards=14)
    chk.cov["programs"] = info["systems"]
    chk.cov["disagreements_checked"] = st["records"]
    chk.cov["evaluations"] = st["records"]
    chk.cov["distinct_nontrivial"] = info["systems"]
    chk.cov["traces_validated_against_impl"] = st["records"]
    chk.cov["rule"] = rule
    sample_lines(chk, trace, 2, lambda r: {"id": r["id"], "kind": r["kind"], "text": r.get("text", [])[:30],
                                          "before_states": r.get("before", {}).get("states", [])[:4] if "before" in r else r.get("first")})
    chk.part("harness", **info)
    chk.assumptions += ["function equivalence is decided by evaluation: all assignments up to 10 symbol bits, corner + random assignments above (8 for shipped designs)"]
    return chk.finish()


def c11(tier, replay=None):
    return syseq_check("C11", tier, replay, "c11",
                       "seeded random systems (arrays, shared sub-expressions, anonymous _input_/_state_ inputs, signals that are input and output, named "
                       "inner nodes) and shipped btor2 designs; simplify_expressions and replace_anonymous_inputs_with_zero each compared with the original "
                       "function by function by TLC (Trace_SysEq); programs = systems", (600, 6000))


def c09(tier, replay=None):
    return syseq_check("C09", tier, replay, "c09",
                       "seeded random writer-accepted systems (constant states, init over earlier states, array states, labels aliasing states, named and "
                       "anonymous signals) and shipped btor2 designs: serialize_to_str then parse_str into the same context, compared with the ORIGINAL "
                       "position by position by TLC; second write/read cycle for the name clause; programs = systems", (600, 6000))


# ------------------------------------------------------------------------------------------------
def c17(tier, replay=None):
    chk = Check("C17", tier, "model_checking")
    T = chk.thorough()
    # (M) the worklist traversal over all small dependency graphs: exact, duplicate-free, terminating
    cfg = pv.write_cfg(chk.work / "Coi.cfg", spec="Spec", constants={"NN": 3}, invariants=("Exact", "NoDup", "OnlySym"), properties=("Terminates",))
    r = pv.tlc_ok("Coi", cfg, workers=8, timeout=3000, xmx="6g")
    chk.add_states(r.generated, r.distinct)
    chk.part("Coi_model", states=r.distinct, nodes=3)
    trace = chk.work / "trace.ndjson"
    if replay:
        rep = json.loads(Path(replay).read_text())
        pv.write_ndjson(trace, rep["detail"]["events"])
        info = {"systems": 1, "cones": 1}
    else:
        p = pv.pv(["c17", "--out", trace, "--systems", 4000 if T else 500])
        info = json.loads(p.stdout.strip().splitlines()[-1])
    st = stateful_check(chk, "Trace_C17", trace, '"ev":"Sys"', lambda rj, seg: {"why": rj["why"], "loc": rj.get("loc", "")}, shards=14, keep=1)
    chk.cov["traces_validated_against_impl"] = info["cones"]
    chk.cov["evaluations"] = info["cones"]
    chk.cov["distinct_nontrivial"] = info["systems"]
    chk.cov["rule"] = ("seeded systems whose functions are xor/add chains over chosen symbol subsets (every syntactic dependency is semantically real) "
                       "plus random systems; every expression and inner node as root; the three cones are judged by TLC for kind, syntactic tightness and "
                       "sufficiency (all current valuations / all free initial values and inputs / all steps via a pair fixpoint); distinct = systems")
    sample_lines(chk, trace, 3, lambda r: {"ev": r["ev"], "root": r["root"], "full": r["full"], "init": r["init"], "comb": r["comb"]})
    chk.part("harness", **info)
    chk.assumptions += ["systems are small enough (<= 6 state bits, <= 3 input bits) for exhaustive enumeration of executions; states without a next function are not generated"]
    return chk.finish()


# ------------------------------------------------------------------------------------------------
def c08(tier, replay=None):
    chk = Check("C08", tier, "model_checking")
    T = chk.thorough()
    ops, gen, dist = pv.generate("Btor2Gen", {"Widths": "{1, 2, 3}"}, "btor2gen", workers=4, deps=["Btor2Gen", "Btor2", "Expr", "BV"])
    if gen:
        chk.add_states(gen, dist)
    trace = chk.work / "trace.ndjson"
    if replay:
        rep = json.loads(Path(replay).read_text())
        pv.write_ndjson(trace, [rep["detail"]["record"]])
        info = {"records": 1}
    else:
        pv.write_ndjson(chk.work / "in.ndjson", ops)
        p = pv.pv(["c08", "--in", chk.work / "in.ndjson", "--out", trace, "--random", 20000 if T else 2500])
        info = json.loads(p.stdout.strip().splitlines()[-1])
    st = batch_check(chk, "Trace_C08", trace, lambda rj, rec: {"why": rj["why"], "loc": rj.get("loc", "").split("|")[0]},
                     lambda rj, rec: {"record": rec, "tlc": rj}, shards=14)
    chk.cov["traces_validated_against_impl"] = st["records"]
    chk.cov["evaluations"] = st["records"]
    chk.cov["distinct_nontrivial"] = st["records"]
    chk.cov["rule"] = (f"all {len(ops)} one-operator files of Btor2Gen.tla (every supported operator x widths 1-3 x slice/extension attributes x every negation "
                       "pattern, referenced by output, bad, constraint and next lines) + seeded random multi-line files (all constant spellings, arrays with "
                       "read/write/eq/ite, init incl. bit-vector init of array states, states demoted to inputs) each with an ill-sorted variant; every "
                       "parsed function compared with the btor2 meaning of its line under all valuations")
    sample_lines(chk, trace, 3, lambda r: {"id": r["id"], "text": r["text"], "outcome": r["outcome"]})
    chk.part("harness", **info)
    chk.assumptions += ["Btor2.tla is written from the BTOR2 format description; operators documented as unsupported (inc, dec, rol, ror, overflow, fair, justice) are not generated"]
    return chk.finish()


def c18(tier, replay=None):
    chk = Check("C18", tier, "exploration")
    T = chk.thorough()
    ill, gen, dist = pv.generate("Btor2IllGen", {}, "btor2ill", workers=4, deps=["Btor2IllGen", "Btor2", "Expr", "BV"])
    if gen:
        chk.add_states(gen, dist)
    trace = chk.work / "trace.ndjson"
    if replay:
        rep = json.loads(Path(replay).read_text())
        txt = "\n".join(rep["detail"]["record"]["text"]) + "\n"
        (chk.work / "one.btor").write_text(txt)
        pv.write_ndjson(trace, [rep["detail"]["record"]])
        info = {"records": 1, "worker": {"inputs": 1}}
    else:
        pv.write_ndjson(chk.work / "in.ndjson", ill)
        nsh = 12
        jobs = [(["c18", "--in", chk.work / "in.ndjson", "--out", chk.work / f"trace_{s}.ndjson", "--mutants", 240000 if T else 12000,
                  "--shard", s, "--shards", nsh], None) for s in range(nsh)]
        res = pv.pv_parallel(jobs, timeout=14400)
        info = {"records": 0, "aborts": 0, "worker": {"inputs": 0, "outcomes_last_worker": {}}}
        with open(trace, "w") as f:
            for s, p in enumerate(res):
                j = json.loads(p.stdout.strip().splitlines()[-1])
                info["records"] += j.get("records", 0)
                info["aborts"] += j.get("aborts", 0)
                info["worker"]["inputs"] += j.get("worker", {}).get("inputs", 0)
                for k, v in j.get("worker", {}).get("outcomes_last_worker", {}).items():
                    info["worker"]["outcomes_last_worker"][k] = info["worker"]["outcomes_last_worker"].get(k, 0) + v
                f.write((chk.work / f"trace_{s}.ndjson").read_text())
                (chk.work / f"trace_{s}.ndjson").unlink()
    def c18_sig(rj, rec):
        op = rj.get("op", "")
        if rec.get("outcome") == "abort":
            # input class of an abort, from the text the supervisor kept: a redxor line in a file that declares a sort of
            # 2^24 bits or more (the reader lowers redxor to one slice per bit of the operand)
            toks = [l.split() for l in rec.get("text", [])]
            huge = any(len(t) >= 4 and t[1] == "sort" and t[2] == "bitvec" and t[3].isdigit() and int(t[3]) >= 1 << 24 for t in toks)
            if huge and any(len(t) >= 2 and t[1] == "redxor" for t in toks):
                op = "redxor-with-huge-sort"
        return {"why": rj["why"], "file": rj.get("loc", ""), "op": op}
    st = batch_check(chk, "Trace_C18", trace, c18_sig,
                     lambda rj, rec: {"record": {k: v for k, v in rec.items() if k != "sys"}, "tlc": rj}, shards=14)
    ninputs = info.get("worker", {}).get("inputs", st["records"])
    chk.cov["traces_validated_against_impl"] = st["records"]
    chk.cov["evaluations"] = ninputs
    chk.cov["distinct_nontrivial"] = st["records"]
    chk.cov["rule"] = (f"all {len(ill)} systematically ill-kinded files of Btor2IllGen.tla (operator x operand position x wrong kind of reference) + seeded "
                       "1-3 line/token/byte mutations of the shipped btor2 files (<= 400 lines) and of generated files, each parsed in a memory-limited worker; "
                       "TLC type-checks every accepted system and classifies every panic; distinct = records kept for TLC (all accepted systems, <= 40 "
                       "panics per location, <= 50 rejected inputs)")
    sample_lines(chk, trace, 3, lambda r: {"id": r["id"], "text": r["text"][:12], "outcome": r["outcome"], "loc": r["loc"]})
    chk.part("harness", **{k: v for k, v in info.items() if k != "worker"})
    chk.part("outcomes", **info.get("worker", {}).get("outcomes_last_worker", {}))
    chk.assumptions += ["'never crashes on arbitrary text' is observed by a mutation driver, not proved", "systems with a type wider than 4096 bits are accepted unchecked (counted as ok-unchecked)"]
    return chk.finish()


# ------------------------------------------------------------------------------------------------
def c19(tier, replay=None):
    chk = Check("C19", tier, "model_checking")
    T = chk.thorough()
    # (M) the six rules as transcribed in Arith.tla: condition => lhs = rhs for all parameters in bounds and ALL operand values
    import concurrent.futures as cf
    rules = ["commute-add", "commute-mul", "merge-left-shift", "unmerge-left-shift", "mult-to-add", "left-shift-mult"]

    def one(rule):
        cfg = pv.write_cfg(chk.work / f"Arith_{rule}.cfg", constants={"MaxOpW": 3 if T else 2, "MaxW": 8 if T else 5, "RuleSel": '{"%s"}' % rule}, invariants=("Sound",))
        return pv.tlc_ok("Arith", cfg, workers=2, timeout=7200, xmx="2g")
    with cf.ThreadPoolExecutor(max_workers=6) as ex:
        for rule, r in zip(rules, ex.map(one, rules)):
            chk.add_states(r.generated, r.distinct)
            chk.part("Arith_model_" + rule, states=r.distinct)
    trace = chk.work / "trace.ndjson"
    if replay:
        rep = json.loads(Path(replay).read_text())
        pv.write_ndjson(trace, [rep["detail"]["record"]])
        info = {"records": 1, "rules": {}}
    else:
        p = pv.pv(["c19", "--out", trace, "--roundtrip", 6000 if T else 800, "--saturate", 12000 if T else 1200,
                   "--max-operand-width", 4 if T else 3, "--max-width", 10 if T else 8])
        info = json.loads(p.stdout.strip().splitlines()[-1])
    st = batch_check(chk, "Trace_C01", trace, lambda rj, rec: {"why": rj["why"], "loc": rj.get("loc", ""), "rule": rec.get("info", {}).get("rule", "")},
                     lambda rj, rec: {"record": rec, "tlc": rj}, shards=14)
    for rule, s in info.get("rules", {}).items():
        if s["condition_holds"] == 0:
            raise ToolError(f"rule {rule}: no assignment within the bounds satisfies its side condition (vacuous)")
    chk.cov["traces_validated_against_impl"] = st["records"]
    chk.cov["evaluations"] = st["records"]
    chk.cov["distinct_nontrivial"] = st["records"]
    chk.cov["rule"] = ("every rule of create_rewrites() x every assignment of operand widths (1..3/4), other widths (1..8/10) and signs for which the real "
                       "eval_condition holds: both patterns instantiated, lowered with from_arith and compared by TLC under ALL operand values (<= 10 bits "
                       "exhaustive); plus to_arith/from_arith round trips of generated add/sub/mul/shift expressions over extended operands; plus equality "
                       "saturation of generated terms with create_egg_rewrites() (conditions evaluated by egg on e-class data): every member of the root "
                       "class, completed with smallest sub-terms, against the source expression")
    sample_lines(chk, trace, 3, lambda r: {"id": r["id"], "info": r.get("info"), "nodes": [[n["op"], n["w"], n["a"], n["by"]] for n in r["nodes"]]})
    chk.part("harness", records=info["records"], saturated_terms=info.get("saturated_terms", 0), saturation_variants=info.get("saturation_variants", 0))
    chk.part("rules", **info.get("rules", {}))
    return chk.finish()


# ------------------------------------------------------------------------------------------------
def smt_inputs(chk, T):
    corpus = expr_corpus(chk, SMALL_T if T else SMALL_Q + [3], WIDE_T if T else WIDE_Q)
    recs = []
    for (mode, wd), rs in corpus.items():
        if mode == "small":
            recs += pv.subsample(rs, 20000 if T else (2500 if wd <= 2 else 1500), pv.seed() + wd)
        else:
            recs += pv.subsample(rs, 6000 if T else 500, pv.seed() + wd)
    return recs


def c05(tier, replay=None):
    chk = Check("C05", tier, "model_checking")
    T = chk.thorough()
    # (M) the writer's Bool / bit-vector coercion design (SmtWriter.tla, a transcription of serialize_expr): every operator
    # over leaves of every type under both context flags is strictly well-sorted, of the promised sort and value-preserving
    mcfg = pv.write_cfg(chk.work / "SmtWriter.cfg", constants={"BuilderInvariant": "TRUE"}, invariants=("Contract",))
    r = pv.tlc_ok("SmtWriter", mcfg, workers=4, timeout=3000, xmx="4g")
    chk.add_states(r.generated, r.distinct)
    chk.part("SmtWriter_model", states=r.distinct, invariant="Contract")
    trace = chk.work / "trace.ndjson"
    if replay:
        rep = json.loads(Path(replay).read_text())
        pv.write_ndjson(trace, [rep["detail"]["record"]])
        info = {"records": 1}
    else:
        pv.write_ndjson(chk.work / "in.ndjson", smt_inputs(chk, T))
        p = pv.pv(["c05", "--in", chk.work / "in.ndjson", "--out", trace, "--random", 20000 if T else 2500])
        info = json.loads(p.stdout.strip().splitlines()[-1])
    st = batch_check(chk, "Trace_C05", trace, lambda rj, rec: {"why": rj["why"], "loc": rj.get("loc", "").split("|")[0]},
                     lambda rj, rec: {"record": rec, "tlc": rj}, shards=14)
    # binding of the transcription: the real writer's text, read by the harness' front end, against Ser(..) node for node.
    # A difference is model drift (the design-level result no longer transfers), not a violation of C05: Trace_C05 above
    # judges the property on the real text either way.
    drift, st2 = pv.validate("Trace_SmtWriter", pv.SPEC / "Trace_SmtWriter.cfg", trace, shards=14)
    chk.add_states(st2["generated"], st2["distinct"])
    chk.part("SmtWriter_transcription", same=st2["records"] - len(drift), differs=len(drift))
    if drift:
        print(f"NOTE: C05 spec/SmtWriter.tla differs from smt/serialize.rs on {len(drift)} of {st2['records']} recorded commands (first: {drift[0].get('id')}); "
              "the design-level result is not transferable to this tree - the property itself is decided by Trace_C05", flush=True)
    chk.cov["traces_validated_against_impl"] = st["records"]
    chk.cov["evaluations"] = st["records"]
    chk.cov["distinct_nontrivial"] = st["records"]
    chk.cov["rule"] = ("expressions of ExprGen.tla (every operator incl. division/remainder and arrays, every mixture of 1-bit and wider operands) and "
                       "seeded random DAGs with 1-bit index/data arrays and symbol names that need quoting; for each: declare-const of all symbols + "
                       "define-fun / get-value / assert / check-sat-assuming written by serialize_cmd, tokenised independently, judged by SmtLib.tla "
                       "(strict sorting, identifier grammar) and compared in value with Expr.tla under all / sampled assignments")
    sample_lines(chk, trace, 3, lambda r: {"id": r["id"], "text": r["text"]})
    chk.part("harness", **info)
    return chk.finish()


def c14(tier, replay=None):
    chk = Check("C14", tier, "model_checking")
    T = chk.thorough()
    # (M) the reader's token machine for let (SmtLetParser.tla, transcribed from parse_expr_or_type / NestedSymbolTable) against
    # the standard meaning of let on every term of a small language
    # (Repaired = TRUE: the reader after fix f506184, lets with several bindings; AgreeAll: machine = meaning on EVERY term)
    # (Full = TRUE - all 2.9 million terms of depth 2 - is available in the spec but not part of the registered commands:
    #  TLC enumerates initial states on one thread, an hour or more on a loaded machine)
    consts = {"Full": "FALSE", "Repaired": "TRUE"}
    mcfg = pv.write_cfg(chk.work / "SmtLetParser.cfg", constants=consts, invariants=("Agree", "AgreeAll"))
    r = pv.tlc_ok("SmtLetParser", mcfg, workers=8, timeout=7200, xmx="8g")
    chk.add_states(r.generated, r.distinct)
    chk.part("SmtLetParser_model", terms=r.distinct, invariants="Agree, AgreeAll (repaired reader)")
    trace = chk.work / "trace.ndjson"
    vtrace = chk.work / "values.ndjson"
    ltrace = chk.work / "let.ndjson"
    if replay:
        rep = json.loads(Path(replay).read_text())
        rec = rep["detail"]["record"]
        kind = rec.get("ev")
        pv.write_ndjson(trace, [rec] if kind not in ("ReadValue", "Cmd", "Let") else [])
        pv.write_ndjson(vtrace, [rec] if kind in ("ReadValue", "Cmd") else [])
        info = {"records": 1, "value_records": 1}
    else:
        pv.write_ndjson(chk.work / "in.ndjson", smt_inputs(chk, T))
        p = pv.pv(["c14", "--in", chk.work / "in.ndjson", "--out", trace, "--values-out", vtrace, "--random", 20000 if T else 2500, "--values", 40000 if T else 5000])
        info = json.loads(p.stdout.strip().splitlines()[-1])
    empty = {"records": 0}
    st = batch_check(chk, "Trace_C01", trace, lambda rj, rec: {"why": rj["why"], "loc": rj.get("loc", ""), "part": "writer-reader"},
                     lambda rj, rec: {"record": rec, "tlc": rj}, shards=14) if Path(trace).stat().st_size else empty
    st2 = empty if not Path(vtrace).stat().st_size else batch_check(chk, "Trace_C14", vtrace, lambda rj, rec: {"why": rj["why"], "loc": rj.get("loc", "").split("|")[0] if rj["why"].startswith("panic") else "", "cls": rj.get("cls", "")},
                      lambda rj, rec: {"record": rec, "tlc": rj}, shards=8)
    # (c) the terms of the let model as text through the real parse_expr: judged against the standard meaning of let (Ref);
    #     differences from the model's machine are model drift (NOTE), not violations
    st3 = empty
    if not replay or Path(replay).exists() and json.loads(Path(replay).read_text())["detail"]["record"].get("ev") == "Let":
        if replay:
            pv.write_ndjson(ltrace, [json.loads(Path(replay).read_text())["detail"]["record"]])
        else:
            terms, _, _ = pv.generate("SmtLetParser", {"Full": "FALSE", "Repaired": "TRUE"}, "smtlet", workers=4, deps=["SmtLetParser"])
            # all terms without the unbound name x, and a seeded sample of those that mention it (nearly all of them errors)
            has_x = lambda t: '"x"' in json.dumps(t)
            terms = [t for t in terms if not has_x(t)] + pv.subsample([t for t in terms if has_x(t)], 12000 if T else 3000, pv.seed())
            pv.write_ndjson(chk.work / "let_in.ndjson", terms)
            pv.pv(["smtlet", "--in", chk.work / "let_in.ndjson", "--out", ltrace])
        both, stl = pv.validate("Trace_SmtLet", pv.SPEC / "Trace_SmtLet.cfg", ltrace, shards=14, kinds=("reject", "model"))
        chk.add_states(stl["generated"], stl["distinct"])
        st3 = {"records": stl["records"]}
        llines = None
        drift = [x for x in both if x["k"] == "model"]
        for rj in [x for x in both if x["k"] == "reject"]:
            if llines is None:
                llines = Path(ltrace).read_text().splitlines()
            rec = json.loads(llines[rj["l"] - 1])
            chk.report({"why": rj["why"], "loc": rj.get("loc", "").split("|")[0] if rj["why"].startswith("panic") else "", "cls": rj.get("cls", "")},
                       {"record": rec, "tlc": rj})
        chk.part("SmtLetParser_transcription", same=stl["records"] - len(drift), differs=len(drift))
        if drift:
            print(f"NOTE: C14 spec/SmtLetParser.tla predicts another outcome than smt/parser.rs on {len(drift)} of {stl['records']} let terms (first: {drift[0].get('text')}); "
                  "the design-level result is not transferable to this tree - the property itself is judged against the standard meaning of let", flush=True)
    chk.cov["traces_validated_against_impl"] = st["records"] + st2["records"] + st3["records"]
    chk.cov["evaluations"] = st["records"] + st2["records"] + st3["records"]
    chk.cov["distinct_nontrivial"] = st["records"] + st2["records"] + st3["records"]
    chk.cov["rule"] = ("(a) every term / define-fun / get-value / assert / check-sat-assuming (1 and 2 terms) written for the C05 expression set is read back "
                       "with parse_expr / parse_command and must have the same type and value under all / sampled assignments; (b) seeded model values "
                       "(bit-vectors 1-129 bits, arrays incl. Bool index/data, 0-3 stores, let-bound sub-terms, extra white space) in the printed forms "
                       "must be read as exactly that value; truncated / unbalanced / string-literal variants must yield an error; (c) every term of the "
                       "let language of SmtLetParser.tla (nested lets, shadowing of declared symbols and of outer bindings, unbound names, lets with two "
                       "bindings) as text through parse_expr, judged against the standard meaning of let")
    sample_lines(chk, vtrace, 3, lambda r: {"id": r["id"], "text": r["text"], "kind": r["kind"]})
    chk.part("harness", **info)
    chk.assumptions += ["malformedness of a variant is decided by the harness' independent SMT-LIB front end (harness/src/smt.rs)"]
    return chk.finish()


# ------------------------------------------------------------------------------------------------
SOLVER_PATH = str(pv.VERIF / "solver" / "bin")


def run_mc(chk, kind, nsys, kmax, T, name, scripts=False, shards=14, extra=()):
    """model-checking runs against the reference solver environment, sharded over harness processes"""
    env = {"PATH": SOLVER_PATH + ":" + os.environ.get("PATH", "")}
    jobs = []
    for s in range(shards):
        args = ["mc", "--out", chk.work / f"{name}_{s}.ndjson", "--kind", kind, "--systems", nsys, "--kmax", kmax, "--shard", s, "--shards", shards]
        if T:
            args += ["--thorough", 1]
        if scripts:
            args += ["--scripts", 1]
        args += list(extra)
        jobs.append((args, env))
    res = pv.pv_parallel(jobs, timeout=6 * 3600)      # solver-bound; a loaded machine must not turn into a tool error
    trace = chk.work / f"{name}.ndjson"
    inc = 0
    with open(trace, "w") as f:
        for s, p in enumerate(res):
            inc += json.loads(p.stdout.strip().splitlines()[-1]).get("incidents", 0)
            f.write((chk.work / f"{name}_{s}.ndjson").read_text())
            (chk.work / f"{name}_{s}.ndjson").unlink()
    return trace, inc


def init_order_class(S, msg):
    """the input class of KF-C04-init-order as it shows at the level of a model-checking run: z3 reports `unknown constant
    <state>@0` and the system has a non-leaf init expression that reads a state and is also (part of) a next / bad /
    constraint / output function (so the encoder defines it as a step-0 signal before the step-0 state symbols)"""
    import re
    m = re.search(r"unknown constant \|?([^\s|\"]+)@0", msg or "")
    # (the solver's error reply can also arrive where a value is expected: "failed to parse a response")
    if not S or not (m or "failed to parse a response" in (msg or "")):
        return False
    nodes = S["nodes"]
    if m and m.group(1) not in {st["name"] for st in S["states"]}:
        return False

    def reach(roots):
        seen, todo = set(), [r for r in roots if r]
        while todo:
            i = todo.pop()
            if i not in seen:
                seen.add(i)
                todo += nodes[i - 1]["a"]
        return seen
    state_syms = {st["sym"] for st in S["states"]}
    others = reach([st["next"] for st in S["states"]] + list(S["bads"]) + list(S["constraints"]) + [o["expr"] for o in S.get("outputs", [])])
    for st in S["states"]:
        i = st["init"]
        if i and nodes[i - 1]["a"] and (reach([i]) & state_syms) and (reach([i]) - state_syms - {j for j in reach([i]) if not nodes[j - 1]["a"]}) & others:
            return True
    return False


def mc_rejects(chk, trace, props):
    rejects, st = pv.validate("Trace_MC", pv.SPEC / "Trace.cfg", trace, shards=14, boundary='"ev":"Sys"')
    chk.add_states(st["generated"], st["distinct"])
    lines = None
    for rj in rejects:
        if rj.get("prop") not in props and rj.get("prop") != "ALL":
            continue
        if lines is None:
            lines = Path(trace).read_text().splitlines()
        seg = segment(lines, rj["l"] - 1, '"ev":"Sys"')
        run = seg[-1]
        msg = (rj.get("msg") or "")
        cls = ""
        if "unknown constant" in msg or "invalid declaration" in msg or "already declared" in msg or "already defined" in msg or "failed to parse a response" in msg:
            cls = "solver rejected the script" if "failed to parse" not in msg else ""
            if init_order_class(run.get("sys") if run.get("has_sys") else seg[0].get("sys"), msg):
                cls = "init-order: a state symbol of step 0 is unknown and an init expression that reads a state is shared with another function"
        chk.report({"why": rj["why"], "cls": cls, "engine": run.get("cfg", {}).get("engine", "")},
                   {"system": seg[0], "run": {k: v for k, v in run.items() if k != "script"}, "tlc": rj})
    return st


def count_runs(trace):
    n = {"runs": 0, "fail": 0, "success": 0, "other": 0, "systems": 0, "block_events": 0}
    with open(trace) as f:
        for line in f:
            if '"ev":"Sys"' in line[:40]:
                n["systems"] += 1
            elif '"ev":"Run"' in line:
                r = json.loads(line)
                n["runs"] += 1
                k = r["outcome"]["kind"]
                n[k if k in ("fail", "success") else "other"] += 1
                n["block_events"] += sum(1 for e in r["events"] if e["ev"] == "Block")
    return n


def c02(tier, replay=None):
    chk = Check("C02", tier, "model_checking")
    T = chk.thorough()
    # (M) the BMC loop over every explicit 3-state system: verdict exact, witness set exact, terminates
    cfg = pv.write_cfg(chk.work / "Bmc.cfg", spec="Spec", constants={"NS": 3, "KMax": 3}, invariants=("VerdictExact", "WitnessOK"), properties=("Terminates",))
    r = pv.tlc_ok("Bmc", cfg, workers=8, timeout=3000, xmx="6g")
    chk.add_states(r.generated, r.distinct)
    chk.part("Bmc_model", states=r.distinct)
    if replay:
        rep = json.loads(Path(replay).read_text())
        trace = chk.work / "bmc.ndjson"
        pv.write_ndjson(trace, [rep["detail"]["system"], rep["detail"]["run"]])
        inc = 0
    else:
        trace, inc = run_mc(chk, "bmc", 150 if T else 90, 6 if T else 5, T, "bmc")
    st = mc_rejects(chk, trace, {"C02"})
    n = count_runs(trace)
    # the command-line tool end to end (btor2 text in, verdict out), incl. systems without states
    if not replay:
        tdir = pv.HARNESS / "target" / "mc_tool"
        p = subprocess.run(["cargo", "build", "--offline", "-q", "-p", "mc"], cwd="/repo", env=dict(os.environ, CARGO_TARGET_DIR=str(tdir), CARGO_NET_OFFLINE="true"), capture_output=True, text=True)
        if p.returncode != 0:
            raise ToolError("building tools/mc failed: " + p.stderr[-1500:])
        cli = chk.work / "cli.ndjson"
        pv.pv(["cli", "--out", cli, "--bin", tdir / "debug" / "mc", "--systems", 240 if T else 45], env={"PATH": SOLVER_PATH + ":" + os.environ.get("PATH", "")})
        mc_rejects(chk, cli, {"C02"})
        nc = count_runs(cli)
        chk.part("cli_runs", **nc)
        n["runs"] += nc["runs"]
        n["systems"] += nc["systems"]
    chk.cov["traces_validated_against_impl"] = n["runs"]
    chk.cov["evaluations"] = n["runs"]
    chk.cov["distinct_nontrivial"] = n["systems"]
    chk.cov["rule"] = ("seeded random systems (bit-vector and small array states, with/without init and next, constant states, inputs, constraints, 1-3 bad "
                       "states, shared sub-expressions) and crafted counters; real bmc for every k <= kmax against the proxy under the z3 / yices2 / "
                       "bitwuzla / cvc5 capability profiles, both bad-state checking modes, with / without prior simplification, with diversified models; "
                       "TLC computes the minimal bad depth of each system by BFS and judges every verdict; distinct = systems")
    chk.part("runs", **n, incidents=inc)
    chk.sample({"counts": n})
    sample_lines(chk, trace, 2, lambda r: {"ev": r["ev"], "id": r["id"], "cfg": r.get("cfg"), "outcome": r.get("outcome")})
    chk.assumptions += ["z3 4.8.12 answers the small QF_ABV queries correctly (cross-checked against TLC's reachability on every run)",
                        "systems have <= 6 state bits and <= 3 input bits so that TLC's BFS is exhaustive"]
    return chk.finish()


def c03(tier, replay=None):
    chk = Check("C03", tier, "model_checking")
    T = chk.thorough()
    if replay:
        rep = json.loads(Path(replay).read_text())
        trace = chk.work / "bmc.ndjson"
        pv.write_ndjson(trace, [rep["detail"]["system"], rep["detail"]["run"]])
        traces = [trace]
    else:
        t1, _ = run_mc(chk, "bmc", 500 if T else 70, 6 if T else 4, T, "bmc")
        t2, _ = run_mc(chk, "pdr", 300 if T else 40, 0, T, "pdr")
        traces = [t1, t2]
    tot = {"runs": 0, "fail": 0, "systems": 0}
    for t in traces:
        mc_rejects(chk, t, {"C03"})
        n = count_runs(t)
        for k in tot:
            tot[k] += n[k]
        sample_lines(chk, t, 2, lambda r: {"ev": r["ev"], "id": r["id"], "witness": r.get("witness"), "cfg": r.get("cfg")})
    chk.cov["traces_validated_against_impl"] = tot["fail"]
    chk.cov["evaluations"] = tot["runs"]
    chk.cov["distinct_nontrivial"] = tot["fail"]
    chk.cov["rule"] = ("every Fail(Witness) returned by the real bmc and pdr (which falls back to bmc) runs of C02 / C10 - all solver profiles, model "
                       "diversification seeds, both checking modes - replayed by TLC on the TSys semantics of the system the engine was given; distinct = "
                       "witnesses")
    chk.part("runs", **tot)
    return chk.finish()


def c10(tier, replay=None):
    chk = Check("C10", tier, "model_checking")
    T = chk.thorough()
    # (M) PDR over all explicit 3-state systems and all solver answer choices
    for cores in ("TRUE", "FALSE"):
        cfg = pv.write_cfg(chk.work / f"Pdr_{cores}.cfg", spec="Spec", constants={"NS": 3, "MaxFrames": 6, "UseCores": cores},
                           invariants=("InitKept", "InfKept", "FrameSound", "InfSound", "VerdictOK", "Definite"), properties=("Terminates",))
        r = pv.tlc_ok("Pdr", cfg, workers=8, timeout=3000, xmx="6g")
        chk.add_states(r.generated, r.distinct)
        chk.part(f"Pdr_model_cores_{cores}", states=r.distinct)
    if replay:
        rep = json.loads(Path(replay).read_text())
        trace = chk.work / "pdr.ndjson"
        pv.write_ndjson(trace, [rep["detail"]["system"], rep["detail"]["run"]])
        inc = 0
    else:
        trace, inc = run_mc(chk, "pdr", 700 if T else 80, 0, T, "pdr", extra=["--stall", 60])
    mc_rejects(chk, trace, {"C10"})
    n = count_runs(trace)
    chk.cov["traces_validated_against_impl"] = n["runs"]
    chk.cov["evaluations"] = n["runs"] + n["block_events"]
    chk.cov["distinct_nontrivial"] = n["systems"]
    chk.cov["rule"] = ("seeded random bit-vector systems (all states have a next function) and crafted counters that are safe only by an inductive invariant; "
                       "real pdr against the proxy: z3 with its own / full / deletion-minimised / random-superset unsat cores, generalisation disabled, "
                       "bitwuzla / cvc5 / yices2 (push-pop, no cores) profiles, diversified models; TLC computes full reachability, judges every verdict and "
                       "every blocked cube reported by the hook; distinct = systems")
    chk.part("runs", **n, incidents=inc)
    chk.sample({"counts": n})
    sample_lines(chk, trace, 2, lambda r: {"ev": r["ev"], "id": r["id"], "cfg": r.get("cfg"), "outcome": r.get("outcome"), "events": r.get("events", [])[:6]})
    chk.assumptions += ["systems have <= 6 state bits (diameter far below MAX_FRAMES = 1000)", "z3 4.8.12 is the only back end (cvc5 is exercised as a capability profile)"]
    return chk.finish()


def c04(tier, replay=None):
    chk = Check("C04", tier, "model_checking")
    T = chk.thorough()
    # (M) the ordering of define/declare blocks of init_at(0) + unroll for every use-classification of a shared signal
    # (Repaired = TRUE: the encoder after fix 61f7cf6 - Sound is an invariant; Repaired = FALSE reports the configurations
    # in which the encoder as found emitted a use before its definition or a second definition)
    cfg = pv.write_cfg(chk.work / "Unroll.cfg", constants={"Repaired": "TRUE"}, invariants=("Sound",))
    r = pv.tlc_ok("Unroll", cfg, workers=4, timeout=1200)
    chk.add_states(r.generated, r.distinct)
    cfg0 = pv.write_cfg(chk.work / "Unroll_as_found.cfg", constants={"Repaired": "FALSE"}, invariants=("Report",))
    r0 = pv.tlc_ok("Unroll", cfg0, workers=4, timeout=1200)
    chk.add_states(r0.generated, r0.distinct)
    chk.part("Unroll_model", configurations=r.distinct, invariant="Sound (OnceOnly, BeforeUse, Available)",
             as_found_bad_configurations=r0.out.count('"BADCFG"'))
    env = {"PATH": SOLVER_PATH + ":" + os.environ.get("PATH", "")}
    trace = chk.work / "trace.ndjson"
    if replay:
        rep = json.loads(Path(replay).read_text())
        pv.write_ndjson(trace, [rep["detail"]["record"]])
        info = {"enc": 1, "runs": 0}
    else:
        shards = 14
        jobs = [(["enc", "--out", chk.work / f"enc_{s}.ndjson", "--systems", 1500 if T else 160, "--k", 2, "--shard", s, "--shards", shards], env) for s in range(shards)]
        pv.pv_parallel(jobs)
        t2, _ = run_mc(chk, "bmc", 150 if T else 28, 3, False, "bmc", scripts=True)
        t3, _ = run_mc(chk, "pdr", 60 if T else 14, 0, False, "pdr", scripts=True)
        n_enc = 0
        with open(trace, "w") as f:
            for s in range(shards):
                t = (chk.work / f"enc_{s}.ndjson").read_text()
                n_enc += t.count("\n")
                f.write(t)
            for t in (t2, t3):
                for line in open(t):
                    if '"ev":"Run"' in line:
                        f.write(line)
        info = {"enc": n_enc, "runs": count_runs(t2)["runs"] + count_runs(t3)["runs"]}
    st = batch_check(chk, "Trace_C04", trace, lambda rj, rec: {"why": rj["why"], "cls": rj.get("cls", "")},
                     lambda rj, rec: {"record": {k: v for k, v in rec.items() if k not in ("events",)}, "tlc": rj}, shards=14)
    chk.cov["traces_validated_against_impl"] = st["records"]
    chk.cov["evaluations"] = st["records"]
    chk.cov["distinct_nontrivial"] = info["enc"]
    chk.cov["rule"] = ("direct use of UnrollSmtEncoding on seeded systems (random, and a family with one signal shared between init / next / bad roots in every "
                       "combination): init_at(0) + 2 x unroll and init_at(1) + unroll, script recorded by SmtLibSolverCtx's replay file and tokenised "
                       "independently; TLC runs the SmtScript machine over every command and evaluates the script under every start state and input "
                       "sequence against TSys; plus the replay scripts of real bmc / pdr runs (well-formedness); distinct = encoder scripts")
    sample_lines(chk, trace, 2, lambda r: {"id": r["id"], "text": r.get("text", [])[:25]})
    chk.part("harness", **info)
    return chk.finish()


def c15(tier, replay=None):
    chk = Check("C15", tier, "fault_enumeration")
    T = chk.thorough()
    # (M) read_response / read_sat_response with every solver-side fault, as repaired
    inv = ("NoVerdictOnFault", "NoPanic", "Unmangled")
    cfg = pv.write_cfg(chk.work / "SolverSession.cfg", spec="Spec", constants={"MaxLen": 40 if T else 12, "Repaired": "TRUE"}, invariants=inv, properties=("Terminates",))
    r = pv.tlc_ok("SolverSession", cfg, workers=4, timeout=1200)
    chk.add_states(r.generated, r.distinct)
    chk.part("SolverSession_model", states=r.distinct)
    # non-vacuity: the model of the code as found exhibits the three recorded defects
    cfg = pv.write_cfg(chk.work / "SolverSessionOld.cfg", spec="Spec", constants={"MaxLen": 12, "Repaired": "FALSE"}, invariants=inv, properties=("Terminates",))
    rn = pv.tlc("SolverSession", cfg, workers=1, timeout=600)
    if rn.ok:
        raise ToolError("SolverSession model no longer distinguishes the repaired from the original code")
    if replay:
        rep = json.loads(Path(replay).read_text())
        trace = chk.work / "faults.ndjson"
        pv.write_ndjson(trace, [rep["detail"]["record"]])
        inc = 0
    else:
        trace, inc = run_mc(chk, "faults", 5 if T else 3, 3, T, "faults", extra=["--max-pos", 120 if T else 30, "--stall", 40])
    st = batch_check(chk, "Trace_C15", trace, lambda rj, rec: {"why": rj["why"], "fault": rec.get("cfg", {}).get("fault_kind", ""), "engine": rec.get("cfg", {}).get("engine", "")},
                     lambda rj, rec: {"record": {k: v for k, v in rec.items() if k not in ("sys", "script")}, "tlc": rj}, shards=8)
    nf = sum(1 for line in open(trace) if '"ev":"Fault"' in line)
    nb = sum(1 for line in open(trace) if '"ev":"Base"' in line)
    chk.cov["traces_validated_against_impl"] = nf
    chk.cov["evaluations"] = nf
    chk.cov["distinct_nontrivial"] = nf
    chk.cov["rule"] = (f"{nb} fault-free bmc / pdr conversations (z3 check-sat-assuming style and yices2 push/pop style, failing and passing systems); for "
                       "each, every response-bearing position (check-sat, get-value, get-unsat-assumptions; capped) x {error reply of length 0,1,3,6,7,8,9,20 "
                       "(thorough: 0..40), unknown, empty, garbage, truncated reply + exit, exit, exit with status}; one fault per run through the proxy; "
                       "a 12 s watchdog turns a call that never returns into a recorded incident; distinct = fault runs")
    sample_lines(chk, trace, 3, lambda r: {"id": r["id"], "cfg": r.get("cfg"), "outcome": r.get("outcome")})
    chk.part("runs", base=nb, faults=nf, incidents=inc)
    return chk.finish()


# ------------------------------------------------------------------------------------------------
def extra(tier, replay=None):
    """Coverage beyond the listed properties (not in MANIFEST.json): spec/UseCount.tla against count_expr_uses,
    spec/TypeCkGen.tla + Trace_TypeCk.tla against TypeCheck::type_check."""
    chk = Check("EXTRA", tier, "other")
    T = chk.thorough()
    corpus = expr_corpus(chk, SMALL_Q, [8])
    recs = []
    for rs in corpus.values():
        recs += pv.subsample(rs, 20000 if T else 2000, pv.seed())
    pv.write_ndjson(chk.work / "in.ndjson", recs)
    pv.pv(["extras", "--in", chk.work / "in.ndjson", "--out", chk.work / "e1.ndjson", "--uses-out", chk.work / "uses.ndjson", "--random", 20000 if T else 2000])
    st = batch_check(chk, "UseCount", chk.work / "uses.ndjson", lambda rj, rec: {"why": rj["why"]}, lambda rj, rec: {"record": rec, "tlc": rj})
    # E3: TypeCheck::type_check / get_type against the typing of Expr.tla on every descriptor of TypeCkGen.tla
    descr, gen, dist = pv.generate("TypeCkGen", {}, "typeck", workers=4, deps=["TypeCkGen", "Expr", "BV"])
    if gen:
        chk.add_states(gen, dist)
    pv.write_ndjson(chk.work / "tc_in.ndjson", descr)
    p = pv.pv(["typeck", "--in", chk.work / "tc_in.ndjson", "--out", chk.work / "typeck.ndjson"])
    tinfo = json.loads(p.stdout.strip().splitlines()[-1])
    st3 = batch_check(chk, "Trace_TypeCk", chk.work / "typeck.ndjson", lambda rj, rec: {"why": rj["why"]}, lambda rj, rec: {"record": rec, "tlc": rj}, shards=8)
    chk.part("typeck", **tinfo)
    # E4: analyze_for_serialization (signal order of the encoder and the writers) against Trace_SigOrder.tla
    p = pv.pv(["sigorder", "--out", chk.work / "sigorder.ndjson", "--systems", 3000 if T else 300])
    sinfo = json.loads(p.stdout.strip().splitlines()[-1])
    st4 = batch_check(chk, "Trace_SigOrder", chk.work / "sigorder.ndjson", lambda rj, rec: {"why": rj["why"]}, lambda rj, rec: {"record": rec, "tlc": rj}, shards=10)
    chk.part("sigorder", **sinfo)
    chk.cov["explanation"] = ("count_expr_uses on ExprGen shapes and random DAGs against the definition in spec/UseCount.tla; type_check / get_type on "
                              "every operator x leaf kinds/widths x attribute descriptor of TypeCkGen.tla against the typing of Expr.tla; analyze_for_serialization on "
                              "generated systems against Trace_SigOrder.tla (inputs first, use counts, once, operands first, complete, minimal)")
    chk.cov["evaluations"] = st["records"] + st3["records"] + st4["records"]
    chk.cov["distinct_nontrivial"] = st["records"] + st3["records"] + st4["records"]
    chk.cov["traces_validated_against_impl"] = st["records"] + st3["records"] + st4["records"]
    chk.sample({"records": st["records"], "typeck_records": st3["records"], "sigorder_records": st4["records"]})
    rc = chk.finish()
    (pv.EVID / "EXTRA.json").unlink(missing_ok=True)  # not a listed property: no evidence file
    return rc
