---------------------------- MODULE Trace_C07 ----------------------------
(* (M/V) C07: the simulator as a state machine (Sim) validated against traces of the real Interpreter.
   Spec state: data (symbol name -> value: current store), snaps (saved stores), seeds (seed -> store
   produced by a random initialisation).  Actions, one per Simulator call:
     Init(kind)   all symbols zero (or seed-determined values), then init expressions evaluated in state order
     Set(i, v)    input i := v
     Step         every state with a next function takes its value computed on the OLD store (simultaneous)
     Get(e)       value of any expression on the current store
     Snapshot / Restore(id)   deep copy / reinstatement (inputs: restored or kept - the property is silent)
   After every call the real store is logged; an event is accepted iff the logged store is one the action
   allows.  On a rejection the spec continues from the logged store so that the rest is still checked. *)
EXTENDS TSys, Json, IOUtils
Rec == ndJsonDeserialize(IOEnv.TRACE)
VARIABLES l, sys, data, snaps, seeds
Names(S)  == { S.states[i].name : i \in 1..Len(S.states) } \cup { S.inputs[i].name : i \in 1..Len(S.inputs) }
SymT(S, p) == IF p <= Len(S.states) THEN TOfJson(S.states[p].t) ELSE TOfJson(S.inputs[p - Len(S.states)].t)
SymN(S, p) == IF p <= Len(S.states) THEN S.states[p].name ELSE S.inputs[p - Len(S.states)].name
NSyms(S)  == Len(S.states) + Len(S.inputs)
StoreOf(S, vals) == [nm \in Names(S) |-> LET p == CHOOSE q \in 1..NSyms(S) : SymN(S, q) = nm IN ValOfC(SymT(S, p), vals[p])]
SameStore(S, d1, d2) == \A p \in 1..NSyms(S) : ValEq(SymT(S, p), d1[SymN(S, p)], d2[SymN(S, p)])
ZeroVal(t) == IF t.k = "bv" THEN Zero(t.w) ELSE ArrConst(t.iw, Zero(t.dw))
ZeroStore(S) == [nm \in Names(S) |-> LET p == CHOOSE q \in 1..NSyms(S) : SymN(S, q) = nm IN ZeroVal(SymT(S, p))]
\* init expressions evaluated in state order over the store being updated
InitFrom(S, base) == FoldLeft(LAMBDA d, i : IF S.states[i].init = 0 THEN d
                                           ELSE [d EXCEPT ![S.states[i].name] = EvalAll(S.nodes, d)[S.states[i].init]],
                              base, Idx(Len(S.states)))
\* a random initialisation: every state with an init expression has that expression's value on the final store
\* (the generated systems let init expressions read earlier states only)
InitConsistent(S, d) == LET v == EvalAll(S.nodes, d) IN
   \A i \in 1..Len(S.states) : S.states[i].init # 0 =>
        ValEq(TOfJson(S.states[i].t), d[S.states[i].name], v[S.states[i].init])
StepStore(S, d) == LET v == EvalAll(S.nodes, d) IN
   [nm \in DOMAIN d |-> LET si == { i \in 1..Len(S.states) : S.states[i].name = nm } IN
                        IF si = {} THEN d[nm]
                        ELSE LET i == CHOOSE x \in si : TRUE IN IF S.states[i].next = 0 THEN d[nm] ELSE v[S.states[i].next]]
WellShaped(S, vals) == /\ Len(vals) = NSyms(S)
                       /\ \A p \in 1..NSyms(S) : SymT(S, p).k = "bv" => Len(vals[p]) = SymT(S, p).w
Init == l = 1 /\ sys = <<>> /\ data = <<>> /\ snaps = <<>> /\ seeds = [x \in {} |-> 0]
Why(r, S, logged) ==
  CASE r.ev = "Sys" -> "ok"
    [] r.ev = "Init" ->
         IF r.kind = "zero" THEN (IF SameStore(S, logged, InitFrom(S, ZeroStore(S))) THEN "ok" ELSE "store after zero initialisation")
         ELSE IF ~InitConsistent(S, logged) THEN "store after random initialisation contradicts an init expression"
         ELSE IF r.seed \in DOMAIN seeds /\ ~SameStore(S, logged, seeds[r.seed]) THEN "same seed, different initial values"
         ELSE "ok"
    [] r.ev = "Set" ->
         LET nm == S.inputs[r.idx].name IN
         IF SameStore(S, logged, [data EXCEPT ![nm] = r.val]) THEN "ok" ELSE "store after set"
    [] r.ev = "Step" -> IF SameStore(S, logged, StepStore(S, data)) THEN "ok" ELSE "store after step"
    [] r.ev = "Get" ->
         LET t == TypeAt(S, r.expr) IN
         IF ValEq(t, ValOfC(t, r.val), EvalAll(S.nodes, data)[r.expr]) THEN "ok" ELSE "value read with get"
    [] r.ev = "Snapshot" -> IF r.id = Len(snaps) THEN "ok" ELSE "snapshot id"
    [] r.ev = "Restore" ->
         IF r.id + 1 \notin 1..Len(snaps) THEN "harness: restore of unknown snapshot"
         ELSE LET sn == snaps[r.id + 1]
                  statesOnly == [nm \in DOMAIN data |-> IF \E i \in 1..Len(S.states) : S.states[i].name = nm THEN sn[nm] ELSE data[nm]]
              IN IF SameStore(S, logged, sn) \/ SameStore(S, logged, statesOnly) THEN "ok" ELSE "store after restore"
    [] OTHER -> "harness: unknown event"
Next == /\ l <= Len(Rec)
        /\ LET r == Rec[l]
               S == IF r.ev = "Sys" THEN r.sys ELSE sys
               hasStore == r.ev \in {"Init", "Set", "Step", "Restore"}
               shaped == ~hasStore \/ WellShaped(S, r.store)
               logged == IF hasStore /\ shaped THEN StoreOf(S, r.store) ELSE data
               w == IF ~shaped THEN "store has the wrong shape" ELSE Why(r, S, logged) IN
           /\ IF w = "ok" THEN TRUE ELSE PrintT(<<"PV", ToJson([k |-> "reject", l |-> l, why |-> w, ev |-> r.ev])>>)
           /\ sys' = S
           /\ data' = IF r.ev = "Sys" THEN <<>> ELSE logged
           /\ snaps' = IF r.ev = "Sys" THEN <<>> ELSE IF r.ev = "Snapshot" THEN Append(snaps, data) ELSE snaps
           /\ seeds' = IF r.ev = "Sys" THEN [x \in {} |-> 0]
                       ELSE IF r.ev = "Init" /\ r.kind = "random" /\ r.seed \notin DOMAIN seeds THEN (r.seed :> logged) @@ seeds ELSE seeds
           /\ l' = l + 1
Inv == TRUE
=============================================================================
