---------------------------- MODULE Trace_SmtWriter ----------------------------
(* (V) binding of SmtWriter.tla to smt/serialize.rs: for every recorded command (the C05 trace: declarations followed by
   a define-fun / assert / check-sat-assuming / get-value), the term table the harness' front end read from the text
   the real writer produced must equal, node for node, what the transcription Ser(..) produces for the same
   expressions (operands first, a fresh node per occurrence, several terms one after the other). *)
EXTENDS SmtWriter, Json, IOUtils
Rec == ndJsonDeserialize(IOEnv.TRACE)
VARIABLE l
TInit == l = 1 /\ d = 0                      \* d: the model's own variable, unused here
TNext == l <= Len(Rec) /\ l' = l + 1 /\ UNCHANGED d
Proj(n) == [k |-> n.k, f |-> n.f, name |-> n.name, bits |-> n.bits, v |-> IF n.k = "bool" THEN n.v ELSE 0,
            ix |-> n.ix, a |-> n.a, sort |-> n.sort]
Expected(r) ==
  LET ty == TypesAll(r.nodes) IN
  FoldLeft(LAMBDA acc, j : acc \o Ser(r.nodes, ty, r.roots[j], FALSE, Len(acc)), <<>>, Idx(Len(r.roots)))
Why(r) ==
  IF r.outcome # "ok" \/ ~WellTyped(r.nodes) THEN "ok"                     \* C05 judges those
  ELSE LET main == r.cmds[Len(r.cmds)]
           got  == [q \in 1..Len(main.nodes) |-> Proj(main.nodes[q])]
           exp  == Expected(r)
       IN  IF Len(got) # Len(exp) THEN "the writer's text has a different number of terms than the transcription"
           ELSE IF \E q \in 1..Len(got) : got[q] # exp[q] THEN "the writer's text differs from the transcription"
           ELSE "ok"
TInv == l <= Len(Rec) => LET w == Why(Rec[l]) IN
          IF w = "ok" THEN TRUE ELSE PrintT(<<"PV", ToJson([k |-> "reject", l |-> l, id |-> Rec[l].id, why |-> w])>>)
=============================================================================
