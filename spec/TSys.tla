------------------------------- MODULE TSys -------------------------------
(* Semantics of a patronus TransitionSystem given as data (a record read from JSON):
     nodes        Expr node table shared by all functions of the system
     states       <<[name, t, sym, init, next]>>   sym/init/next are node indices, 0 = absent
     inputs       <<[name, t, sym]>>
     outputs      <<[name, expr]>>     bads, constraints  <<node index>>
   A state valuation is a function name -> value.  An execution starts in a state whose states with an
   init expression have that expression's value (others arbitrary), and in each step picks inputs that
   satisfy every constraint; states with a next function take its value, the others are unconstrained.
   TLC explores these definitions directly: it is the explicit-state reachability oracle. *)
EXTENDS Envs, Integers
TOfJson(j)      == IF j.k = "bv" THEN BVT(j.w) ELSE ArrT(j.iw, j.dw)
SSyms(S)        == [i \in 1..Len(S.states) |-> [name |-> S.states[i].name, t |-> TOfJson(S.states[i].t)]]
ISyms(S)        == [i \in 1..Len(S.inputs) |-> [name |-> S.inputs[i].name, t |-> TOfJson(S.inputs[i].t)]]
States(S)       == AllEnvs(SSyms(S))
Inputs(S)       == AllEnvs(ISyms(S))
Env(st, inp)    == st @@ inp
Vals(S, st, inp) == EvalAll(S.nodes, Env(st, inp))
AnyInput(S)     == CHOOSE i \in Inputs(S) : TRUE
TypeAt(S, i)    == TypesAll(S.nodes)[i]
\* equality of state values (arrays extensionally)
SameVal(t, x, y) == ValEq(t, x, y)
\* init expressions only read states (btor2 forbids inputs there)
InitOK(S, st)   == LET v == Vals(S, st, AnyInput(S)) IN
                   \A i \in 1..Len(S.states) :
                      S.states[i].init # 0 => SameVal(TOfJson(S.states[i].t), st[S.states[i].name], v[S.states[i].init])
InitStates(S)   == { st \in States(S) : InitOK(S, st) }
ConsHold(S, v)  == \A c \in 1..Len(S.constraints) : v[S.constraints[c]] = <<1>>
BadSet(S, v)    == { b \in 1..Len(S.bads) : v[S.bads[b]] = <<1>> }
BadHolds(S, v)  == BadSet(S, v) # {}
\* canonical form of a value of type t (arrays: total function over the index space) so that states compare with =
Canon(t, x)     == IF t.k = "bv" THEN x
                   ELSE [iw |-> t.iw, dw |-> t.dw, def |-> Zero(t.dw), m |-> [ix \in AllBV(t.iw) |-> Select(x, ix)]]
\* successors of st under input inp (constraints must hold in st under inp)
NextVals(S, v)  == FoldLeft(LAMBDA acc, i :
                      LET s == S.states[i]  t == TOfJson(s.t)
                          choices == IF s.next # 0 THEN { Canon(t, v[s.next]) } ELSE AllVals(t)
                      IN { (s.name :> x) @@ f : f \in acc, x \in choices },
                    { EmptyFn }, Idx(Len(S.states)))
Post(S, st)     == UNION { LET v == Vals(S, st, inp) IN IF ConsHold(S, v) THEN NextVals(S, v) ELSE {} : inp \in Inputs(S) }
BadAt(S, st)    == \E inp \in Inputs(S) : LET v == Vals(S, st, inp) IN ConsHold(S, v) /\ BadHolds(S, v)
Live(S, st)     == \E inp \in Inputs(S) : ConsHold(S, Vals(S, st, inp))
\* reachability (used by trace specs that need Reach<=j / Reach*)
RECURSIVE ReachUpTo(_, _)
ReachUpTo(S, j) == IF j = 0 THEN InitStates(S)
                   ELSE LET p == ReachUpTo(S, j - 1) IN p \cup UNION { Post(S, st) : st \in p }
RECURSIVE ReachFix(_, _)
ReachFix(S, set) == LET n2 == set \cup UNION { Post(S, st) : st \in set } IN IF n2 = set THEN set ELSE ReachFix(S, n2)
ReachAll(S)     == ReachFix(S, InitStates(S))
\* minimal number of steps after which a bad state (under constraints) is reachable; -1 if none within K
RECURSIVE MinBad(_, _, _, _)
MinBad(S, frontier, seen, k) ==          \* frontier: states first reached at depth k
  IF \E st \in frontier : BadAt(S, st) THEN k
  ELSE LET nxt == (UNION { Post(S, st) : st \in frontier }) \ seen IN
       IF nxt = {} THEN -1 ELSE MinBad(S, nxt, seen \cup nxt, k + 1)
MinBadDepth(S)  == LET i0 == InitStates(S) IN MinBad(S, i0, i0, 0)
=============================================================================
