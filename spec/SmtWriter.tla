------------------------------ MODULE SmtWriter ------------------------------
(* (M) the SMT-LIB term writer, smt/serialize.rs: serialize_expr, transcribed.

   patronus has no Boolean type: a 1-bit bit-vector is written as an SMT-LIB Bool wherever possible.  The writer keeps
   this sound with two tables and one flag handed from a parent to its operands:
     always_consumes_bit_vec(parent)  - the operands must be bit-vectors even when they are one bit wide,
     always_produces_bit_vec(node)    - the core term is a bit-vector even when it is one bit wide,
   and wraps a 1-bit core term in (ite t #b1 #b0) or (= t #b1) when the two disagree.
   Ser(..) below is the writer as a function from node tables (Expr.tla) to SMT-LIB term tables (SmtLib.tla), in the
   order in which a reader of the text meets the terms (operands first, a fresh node per occurrence).

   The design claim (Contract): a term for an expression of type t, written under flag must, is strictly well-sorted
   and has sort  PS(t, must) = (_ BitVec 1) if t is 1 bit wide and must, Bool if 1 bit wide and not must, the natural
   sort otherwise - and denotes the expression's value.  TLC checks the claim for every operator over leaves of every
   type and both flags (the inductive step: leaves are the base case, checked the same way), exhaustively over all
   assignments.  The claim needs two facts about the expression builders - a slice of the full width and an extension
   by zero bits are never built (Context::slice / zero_extend / sign_extend return the operand) - without them the
   writer emits ill-sorted text; BuilderInvariant = FALSE lets TLC exhibit that.

   Trace_SmtWriter.tla binds this transcription to the code: the term table read from the real writer's output must
   equal Ser(..) node for node. *)
EXTENDS SmtLib, Envs
CONSTANT BuilderInvariant

ConsumesBV == {"sext", "neg", "ugt", "sgt", "uge", "sge", "concat", "shl", "ashr", "lshr", "add", "mul", "sdiv", "udiv",
               "smod", "srem", "urem", "sub"}
ProducesBV == {"zext", "sext", "concat", "slice", "neg", "shl", "ashr", "lshr", "add", "mul", "sdiv", "udiv", "smod",
               "srem", "urem", "sub"}

SortFor(t) == IF t.k = "bv" THEN (IF t.w = 1 THEN BoolS ELSE BVS(t.w))
              ELSE [NoneS EXCEPT !.k = "arr", !.ik = IF t.iw = 1 THEN "bool" ELSE "bv", !.iw = IF t.iw = 1 THEN 0 ELSE t.iw,
                                 !.dk = IF t.dw = 1 THEN "bool" ELSE "bv", !.dw = IF t.dw = 1 THEN 0 ELSE t.dw]
PS(t, must) == IF t = BVT(1) /\ must THEN BVS(1) ELSE SortFor(t)

\* SMT-LIB term nodes (the fields the harness' front end produces; codes / quoting are C05's business)
N0           == [k |-> "", f |-> "", name |-> "", bits |-> <<>>, v |-> 0, ix |-> <<>>, a |-> <<>>, sort |-> NoneS]
IdN(nm)      == [N0 EXCEPT !.k = "id", !.name = nm]
BoolN(b)     == [N0 EXCEPT !.k = "bool", !.v = b]
LitN(bits)   == [N0 EXCEPT !.k = "lit", !.bits = bits]
AppN(f, a)   == [N0 EXCEPT !.k = "app", !.f = f, !.a = a]
AppIxN(f, ix, a) == [N0 EXCEPT !.k = "app", !.f = f, !.ix = ix, !.a = a]

Fsym(op, t, t1) ==
  CASE op = "not" -> IF t1 = BVT(1) THEN "not" ELSE "bvnot"
    [] op = "neg" -> "bvneg"   [] op = "eq" -> "="        [] op = "arreq" -> "="    [] op = "implies" -> "=>"
    [] op = "ugt" -> "bvugt"   [] op = "sgt" -> "bvsgt"   [] op = "uge" -> "bvuge"  [] op = "sge" -> "bvsge"
    [] op = "concat" -> "concat"
    [] op = "and" -> IF t = BVT(1) THEN "and" ELSE "bvand"
    [] op = "or"  -> IF t = BVT(1) THEN "or" ELSE "bvor"
    [] op = "xor" -> IF t = BVT(1) THEN "xor" ELSE "bvxor"
    [] op = "shl" -> "bvshl"   [] op = "ashr" -> "bvashr" [] op = "lshr" -> "bvlshr"
    [] op = "add" -> "bvadd"   [] op = "mul" -> "bvmul"   [] op = "sdiv" -> "bvsdiv" [] op = "udiv" -> "bvudiv"
    [] op = "smod" -> "bvsmod" [] op = "srem" -> "bvsrem" [] op = "urem" -> "bvurem" [] op = "sub" -> "bvsub"
    [] op = "read" -> "select" [] op = "ite" -> "ite"     [] op = "arrite" -> "ite"  [] op = "store" -> "store"
    [] OTHER -> "?"

(* Ser returns the sequence of term nodes for expression node i written under flag `must`; the nodes are numbered
   base+1 .. base+Len(result), the last one is the term itself. *)
RECURSIVE Ser(_, _, _, _, _)
Ser(nodes, ts, i, must, base) ==
  LET n    == nodes[i]
      t    == ts[i]
      na   == Len(n.a)
      cf   == n.op \in ConsumesBV
      t1   == IF na >= 1 THEN ts[n.a[1]] ELSE BAD
      \* a slice of the full width writes nothing but its operand
      bare == n.op = "slice" /\ n.lo = 0 /\ n.hi + 1 = t1.w
      k1   == IF na >= 1 THEN Ser(nodes, ts, n.a[1], cf, base) ELSE <<>>
      k2   == IF na >= 2 THEN Ser(nodes, ts, n.a[2], cf, base + Len(k1)) ELSE <<>>
      k3   == IF na >= 3 THEN Ser(nodes, ts, n.a[3], cf, base + Len(k1) + Len(k2)) ELSE <<>>
      kids == k1 \o k2 \o k3
      r1   == base + Len(k1)
      r2   == r1 + Len(k2)
      r3   == r2 + Len(k3)
      nb   == base + Len(kids)
      core == CASE n.op \in {"bvsym", "arrsym"} -> << IdN(n.name) >>
                [] n.op = "bvlit" -> IF Len(n.bits) > 1 THEN << LitN(n.bits) >> ELSE << BoolN(n.bits[1]) >>
                [] n.op = "zext" /\ t1 = BVT(1) ->
                     << LitN(<<1>> \o Zero(n.by)), LitN(Zero(n.by + 1)), AppN("ite", <<r1, nb + 1, nb + 2>>) >>
                [] n.op = "zext" -> << AppIxN("zero_extend", <<n.by>>, <<r1>>) >>
                [] n.op = "sext" -> << AppIxN("sign_extend", <<n.by>>, <<r1>>) >>
                [] n.op = "slice" -> IF bare THEN <<>> ELSE << AppIxN("extract", <<n.hi, n.lo>>, <<r1>>) >>
                [] n.op = "arrconst" -> << [AppN("asconst", <<r1>>) EXCEPT !.sort = SortFor(t)] >>
                [] na = 1 -> << AppN(Fsym(n.op, t, t1), <<r1>>) >>
                [] na = 2 -> << AppN(Fsym(n.op, t, t1), <<r1, r2>>) >>
                [] OTHER  -> << AppN(Fsym(n.op, t, t1), <<r1, r2, r3>>) >>
      body == kids \o core
      rc   == base + Len(body)                         \* the core term
      is1  == t = BVT(1)
      prod == n.op \in ProducesBV
  IN  IF is1 /\ must /\ ~prod THEN body \o << LitN(<<1>>), LitN(<<0>>), AppN("ite", <<rc, rc + 1, rc + 2>>) >>
      ELSE IF is1 /\ ~must /\ prod THEN body \o << LitN(<<1>>), AppN("=", <<rc, rc + 1>>) >>
      ELSE body
\* a whole term (the writer starts with must = FALSE)
SerTerm(nodes, root, base) == Ser(nodes, TypesAll(nodes), root, FALSE, base)

(* ---------------- the design check: one operator over leaves, both flags ---------------- *)
VARIABLE d            \* [op, ts, by, hi, lo, must]
LeafTypes == { BVT(1), BVT(2), BVT(3), ArrT(1, 2), ArrT(2, 2), ArrT(1, 1), ArrT(2, 1) }
Op1 == {"not", "neg"}
Op2 == {"and", "or", "xor", "add", "sub", "mul", "udiv", "sdiv", "smod", "srem", "urem", "shl", "lshr", "ashr",
        "eq", "arreq", "implies", "ugt", "uge", "sgt", "sge", "concat", "read"}
Op3 == {"ite", "arrite", "store"}
D(op, ts, by, hi, lo, m) == [op |-> op, ts |-> ts, by |-> by, hi |-> hi, lo |-> lo, must |-> m]
Descr == { D("leaf", <<t>>, 0, 0, 0, m) : t \in LeafTypes, m \in BOOLEAN }
    \cup { D("bvlit", <<BVT(w)>>, v, 0, 0, m) : w \in 1..2, v \in 0..3, m \in BOOLEAN }
    \cup { D(op, <<t>>, 0, 0, 0, m) : op \in Op1, t \in LeafTypes, m \in BOOLEAN }
    \cup { D(op, <<t>>, by, 0, 0, m) : op \in {"zext", "sext"}, t \in LeafTypes, by \in 0..2, m \in BOOLEAN }
    \cup { D("arrconst", <<t>>, by, 0, 0, m) : t \in LeafTypes, by \in 1..2, m \in BOOLEAN }
    \cup { D("slice", <<t>>, 0, hi, lo, m) : t \in LeafTypes, hi \in 0..2, lo \in 0..2, m \in BOOLEAN }
    \cup { D(op, <<t1, t2>>, 0, 0, 0, m) : op \in Op2, t1 \in LeafTypes, t2 \in LeafTypes, m \in BOOLEAN }
    \cup { D(op, <<t1, t2, t3>>, 0, 0, 0, m) : op \in Op3, t1 \in LeafTypes, t2 \in LeafTypes, t3 \in LeafTypes, m \in BOOLEAN }
E0 == [op |-> "", name |-> "", w |-> 0, bits |-> <<>>, a |-> <<>>, hi |-> 0, lo |-> 0, by |-> 0, iw |-> 0, dw |-> 0, ow |-> 0]
Leaf(t, j) == IF t.k = "bv" THEN [E0 EXCEPT !.op = "bvsym", !.name = <<"a", "b", "c">>[j], !.w = t.w]
              ELSE [E0 EXCEPT !.op = "arrsym", !.name = <<"a", "b", "c">>[j], !.iw = t.iw, !.dw = t.dw]
\* the expression node table of a descriptor, with the stored widths the builders compute
Table(x) ==
  LET nl == Len(x.ts)
      lv == [j \in 1..nl |-> Leaf(x.ts[j], j)]
      t1 == x.ts[1]
      w1 == IF t1.k = "bv" THEN t1.w ELSE 0
      w2 == IF nl >= 2 /\ x.ts[2].k = "bv" THEN x.ts[2].w ELSE 0
      wd == CASE x.op \in {"zext", "sext"} -> w1 + x.by
              [] x.op = "concat" -> w1 + w2
              [] x.op = "read" -> IF t1.k = "arr" THEN t1.dw ELSE 0
              [] x.op \in {"eq", "arreq", "implies", "ugt", "uge", "sgt", "sge"} -> 1
              [] OTHER -> w1
  IN  IF x.op = "leaf" THEN lv
      ELSE IF x.op = "bvlit" THEN << [E0 EXCEPT !.op = "bvlit", !.w = w1, !.bits = [q \in 1..w1 |-> ((x.by \div (2^(q-1))) % 2)]] >>
      ELSE lv \o << [E0 EXCEPT !.op = x.op, !.a = [j \in 1..nl |-> j], !.w = wd, !.ow = w1, !.by = x.by, !.hi = x.hi, !.lo = x.lo,
                              !.iw = IF x.op = "arrconst" THEN x.by ELSE 0, !.dw = IF x.op = "arrconst" THEN w1 ELSE 0] >>
Root(x) == Len(Table(x))
\* shapes the builders never produce
NotBuilt(x) == \/ x.op \in {"zext", "sext"} /\ x.by = 0
               \/ x.op = "slice" /\ x.lo = 0 /\ x.ts[1].k = "bv" /\ x.hi + 1 = x.ts[1].w
InScope(x) == /\ (x.op = "bvlit" => x.by < 2^(x.ts[1].w))
              /\ TypesAll(Table(x))[Root(x)] # BAD
              /\ (BuilderInvariant => ~NotBuilt(x))
Init == d \in { x \in Descr : InScope(x) }
Next == UNCHANGED d
Decls(x) == LET tb == Table(x) IN [nm \in { tb[j].name : j \in SymIdx(tb) } |-> SortFor(SymType(tb[CHOOSE j \in SymIdx(tb) : tb[j].name = nm]))]
Contract ==
  LET tb  == Table(d)
      ty  == TypesAll(tb)
      out == Ser(tb, ty, Root(d), d.must, 0)
      st  == SortsAll(out, Decls(d))
      ss  == SymSeq(tb)
  IN  /\ Len(out) >= 1
      /\ \A q \in 1..Len(out) : st[q].k # "err"                                   \* strictly well-sorted
      /\ st[Len(out)] = PS(ty[Root(d)], d.must)                                    \* of the promised sort
      /\ \A env \in EnvsFor(ss, 7, 8) :                                             \* and of the expression's value
           ValEq(ty[Root(d)], EvalAll(tb, env)[Root(d)], SmtEvalAll(out, env, st)[Len(out)])
=============================================================================
