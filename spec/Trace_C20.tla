---------------------------- MODULE Trace_C20 ----------------------------
(* (V) C20: after every operation on a real ValueSummary (new / apply_bin_op / apply_ite / coalesce /
   import_into_guard / expr_to_guard) the entries read through the hook - each guard tabulated by the real
   BDD over ALL assignments of the symbols - must be a partition (exactly one guard holds per assignment)
   and the value of the selected entry must equal the expected value: `den`, an expression that applies the
   operation pointwise to the arguments' denotations, evaluated by Expr.tla.
   Record: [id, op, kind, loc, nodes, den, syms = <<[name, w]>>, entries = <<[g = table, v = node]>>].
   Assignment number e (0-based) gives symbol j the digit of e in the mixed radix 2^w1, 2^w2, ... *)
EXTENDS Envs, Json, IOUtils
Rec == ndJsonDeserialize(IOEnv.TRACE)
VARIABLE l
Init == l = 1
Next == l <= Len(Rec) /\ l' = l + 1
Pow(r, j)  == FoldLeft(LAMBDA acc, i : acc * (2^r.syms[i].w), 1, Idx(j - 1))       \* weight of symbol j
NEnv(r)    == Pow(r, Len(r.syms) + 1)
Digit(r, e, j) == (e \div Pow(r, j)) % (2^r.syms[j].w)
EnvOfIdx(r, e) == [nm \in { r.syms[j].name : j \in 1..Len(r.syms) } |->
                     LET j == CHOOSE q \in 1..Len(r.syms) : r.syms[q].name = nm IN NatBits(Digit(r, e, j), r.syms[j].w)]
Holding(r, e)  == { i \in 1..Len(r.entries) : r.entries[i].g[e + 1] = 1 }
Why(r) ==
  IF r.kind = "panic" THEN "panic"
  ELSE IF ~WellTyped(r.nodes) THEN "harness: ill-typed table"
  ELSE IF \E i \in 1..Len(r.entries) : Len(r.entries[i].g) # NEnv(r) THEN "harness: table length"
  ELSE IF \E e \in 0..(NEnv(r) - 1) : Cardinality(Holding(r, e)) = 0 THEN "guards are not exhaustive"
  ELSE IF \E e \in 0..(NEnv(r) - 1) : Cardinality(Holding(r, e)) > 1 THEN "guards overlap"
  ELSE IF \E e \in 0..(NEnv(r) - 1) :
            LET v == EvalAll(r.nodes, EnvOfIdx(r, e))  i == CHOOSE x \in Holding(r, e) : TRUE IN v[r.entries[i].v] # v[r.den]
       THEN "wrong value under some valuation"
  ELSE "ok"
Inv == l <= Len(Rec) => LET w == Why(Rec[l]) IN
         IF w = "ok" THEN TRUE ELSE PrintT(<<"PV", ToJson([k |-> "reject", l |-> l, id |-> Rec[l].id, op |-> Rec[l].op, why |-> w, loc |-> Rec[l].loc])>>)
=============================================================================
