------------------------------- MODULE Arith -------------------------------
(* (M) C19: the ROVER-style arithmetic language of patronus-egraphs and its six shipped rewrite rules,
   transcribed with their side conditions (rewrites.rs:34-91).  An operator application
       op(wo, wa, sa, a, wb, sb, b)
   extends a (width wa, signed iff sa) and b to max(wa, wb, wo) bits, applies the bit-vector operator and keeps
   the low wo bits (arithmetic.rs patronus_bin_op).  TLC checks, for every assignment of the width / sign
   parameters within the bounds and ALL operand values, that  condition => lhs = rhs.
   One TLC state per (rule, parameter assignment). *)
EXTENDS BV, Integers, TLC
CONSTANTS MaxOpW,     \* operand widths 1..MaxOpW
          MaxW,       \* other widths 1..MaxW
          RuleSel     \* the rules checked by this run (runs are sharded by rule: initial states are evaluated single-threaded)
VARIABLE d
Max2(x, y) == IF x >= y THEN x ELSE y
Ext(v, w, sg) == IF Len(v) >= w THEN SubSeq(v, 1, w) ELSE IF sg = 1 THEN SExt(v, w - Len(v)) ELSE ZExt(v, w - Len(v))
Bin(op(_, _), wo, wa, sa, a, wb, sb, b) ==
  LET cw == Max2(Max2(wa, wb), wo) IN SubSeq(op(Ext(a, cw, sa), Ext(b, cw, sb)), 1, wo)
MaxPlus1(x, y) == Max2(x, y) + 1
Wlsh(wa, wb) == wa + (2^wb) - 1                       \* eval_width_left_shift for wb < 32
NatBV(n, w) == [i \in 1..w |-> (n \div (2^(i-1))) % 2]
AllBV(w) == [1..w -> {0, 1}]
Rules == {"commute-add", "commute-mul", "merge-left-shift", "unmerge-left-shift", "mult-to-add", "left-shift-mult"}
OW == 1..MaxOpW   WW == 1..MaxW   SG == 0..1
ASSUME RuleSel \subseteq Rules
Init == d \in [rule : RuleSel, wo : WW, w1 : WW, wa : OW, wb : OW, wc : OW, sa : SG, sb : SG]
Next == UNCHANGED d
\* condition and both sides per rule; a, b, c range over all values of their widths
Cond ==
  CASE d.rule \in {"commute-add", "commute-mul"} -> TRUE
    [] d.rule = "merge-left-shift" -> d.w1 >= d.wo                                         \* wab >= wo
    [] d.rule = "unmerge-left-shift" -> d.w1 >= Max2(d.wb, d.wc) + 1                        \* wbc >= max(wb, wc) + 1
    [] d.rule = "mult-to-add" -> (d.sb = 0 /\ d.wb > 1) \/ (d.sb = 1 /\ d.wb > 2) \/ d.wo <= d.wb
    [] OTHER -> d.w1 >= d.wa + d.wb /\ d.wo >= Wlsh(d.w1, d.wc)                             \* left-shift-mult
Holds(a, b, c) ==
  CASE d.rule = "commute-add" -> Bin(Add, d.wo, d.wa, d.sa, a, d.wb, d.sb, b) = Bin(Add, d.wo, d.wb, d.sb, b, d.wa, d.sa, a)
    [] d.rule = "commute-mul" -> Bin(Mul, d.wo, d.wa, d.sa, a, d.wb, d.sb, b) = Bin(Mul, d.wo, d.wb, d.sb, b, d.wa, d.sa, a)
    [] d.rule = "merge-left-shift" ->
         LET wab == d.w1  m == MaxPlus1(d.wb, d.wc) IN
         Bin(Shl, d.wo, wab, d.sa, Bin(Shl, wab, d.wa, d.sa, a, d.wb, 0, b), d.wc, 0, c)
           = Bin(Shl, d.wo, d.wa, d.sa, a, m, 0, Bin(Add, m, d.wb, 0, b, d.wc, 0, c))
    [] d.rule = "unmerge-left-shift" ->
         LET wbc == d.w1  wab == Wlsh(d.wa, d.wb) IN
         Bin(Shl, d.wo, d.wa, d.sa, a, wbc, 0, Bin(Add, wbc, d.wb, 0, b, d.wc, 0, c))
           = Bin(Shl, d.wo, wab, d.sa, Bin(Shl, wab, d.wa, d.sa, a, d.wb, 0, b), d.wc, 0, c)
    [] d.rule = "mult-to-add" ->
         Bin(Mul, d.wo, d.wa, d.sa, a, d.wb, d.sb, NatBV(2, d.wb)) = Bin(Add, d.wo, d.wa, d.sa, a, d.wa, d.sa, a)
    [] OTHER ->
         LET wab == d.w1  wac == Wlsh(d.wa, d.wc) IN
         Bin(Shl, d.wo, wab, 0, Bin(Mul, wab, d.wa, 0, a, d.wb, 0, b), d.wc, 0, c)
           = Bin(Mul, d.wo, wac, 0, Bin(Shl, wac, d.wa, 0, a, d.wc, 0, c), d.wb, 0, b)
Sound == Cond => \A a \in AllBV(d.wa) : \A b \in AllBV(d.wb) : \A c \in AllBV(d.wc) : Holds(a, b, c)
\* non-vacuity: each rule's condition is satisfiable within the bounds (checked by the driver from the prints)
Witness == Cond => PrintT(<<"PV", "{\"rule\":\"" \o d.rule \o "\"}">>)
=============================================================================
