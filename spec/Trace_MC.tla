---------------------------- MODULE Trace_MC ----------------------------
(* (V) C02 / C03 / C10: what the real bmc / pdr returned against the reference solver is judged with TLC as the
   explicit-state oracle (TSys.tla evaluated on the very system the run was given):
     C02  bmc:  verdict \in {success, fail} and  fail <=> a bad state is reachable within k steps
     C10  pdr:  verdict \in {success, fail} and  fail <=> a bad state is reachable at any depth;
                every cube blocked at frame j contains no state that is live-reachable within j steps
                (infinite frame: at any depth) - per-event invariant from the verification hook
     C03  every Fail carries a witness that is a real execution: names and order as in the system, a value for
          every input at every step, init values agree with the init expressions, every constraint holds at
          every step, and the bad states that hold at the last step are non-empty and exactly `failed`.
   A "Sys" record sets the current system and the oracle values; "Run" records refer to it.  Every judgement is
   printed with the property it belongs to. *)
EXTENDS TSys, Json, IOUtils
Rec == ndJsonDeserialize(IOEnv.TRACE)
VARIABLES l, sys, mbd
Init == l = 1 /\ sys = <<>> /\ mbd = -2
SymT(S, p) == IF p <= Len(S.states) THEN TOfJson(S.states[p].t) ELSE TOfJson(S.inputs[p - Len(S.states)].t)
StateOf(S, vals) == [nm \in { S.states[i].name : i \in 1..Len(S.states) } |->
                       LET i == CHOOSE j \in 1..Len(S.states) : S.states[j].name = nm IN Canon(TOfJson(S.states[i].t), ValOfC(TOfJson(S.states[i].t), vals[i]))]
InputOf(S, vals) == [nm \in { S.inputs[i].name : i \in 1..Len(S.inputs) } |->
                       LET i == CHOOSE j \in 1..Len(S.inputs) : S.inputs[j].name = nm IN ValOfC(TOfJson(S.inputs[i].t), vals[i])]
ShapeOK(S, w) ==
  /\ Len(w.init) = Len(S.states) /\ Len(w.inputs) >= 1
  /\ \A i \in 1..Len(S.states) : TOfJson(S.states[i].t).k = "bv" => Len(w.init[i]) = TOfJson(S.states[i].t).w
  /\ \A j \in 1..Len(w.inputs) : /\ Len(w.inputs[j]) = Len(S.inputs)
                                  /\ \A i \in 1..Len(S.inputs) : Len(w.inputs[j][i]) = TOfJson(S.inputs[i].t).w
\* states consistent with the witness after j steps (states without a next function are unconstrained)
RECURSIVE WitStates(_, _, _)
WitStates(S, w, j) ==
  IF j = 0 THEN { StateOf(S, w.init) }
  ELSE UNION { LET v == Vals(S, st, InputOf(S, w.inputs[j])) IN IF ConsHold(S, v) THEN NextVals(S, v) ELSE {}
               : st \in WitStates(S, w, j - 1) }
WitWhy(S, w, k) ==
  IF w.init_names # [i \in 1..Len(S.states) |-> S.states[i].oname] THEN "state names or order differ from the system"
  ELSE IF w.input_names # [i \in 1..Len(S.inputs) |-> S.inputs[i].oname] THEN "input names or order differ from the system"
  ELSE IF ~ShapeOK(S, w) THEN "a state or input value is missing or has the wrong width"
  ELSE IF ~InitOK(S, StateOf(S, w.init)) THEN "initial values contradict an init expression"
  ELSE LET n == Len(w.inputs)
           last == WitStates(S, w, n - 1)
           good == { st \in last : LET v == Vals(S, st, InputOf(S, w.inputs[n])) IN
                                   ConsHold(S, v) /\ BadSet(S, v) # {} /\ BadSet(S, v) = { w.failed[i] + 1 : i \in 1..Len(w.failed) } }
       IN IF last = {} THEN "a constraint is violated before the last step"
          ELSE IF good = {} THEN "no bad state holds at the last step under the constraints, or `failed` is not the set of bad states that hold"
          ELSE "ok"
\* live reachability for the per-event PDR invariant
LiveSet(S, set) == { st \in set : Live(S, st) }
RECURSIVE LiveUpTo(_, _)
LiveUpTo(S, j) == IF j = 0 THEN LiveSet(S, InitStates(S))
                  ELSE LET p == LiveUpTo(S, j - 1) IN p \cup LiveSet(S, UNION { Post(S, st) : st \in p })
RECURSIVE LiveFix(_, _)
LiveFix(S, set) == LET n2 == set \cup LiveSet(S, UNION { Post(S, st) : st \in set }) IN IF n2 = set THEN set ELSE LiveFix(S, n2)
InCube(S, lits, st) == LET v == Vals(S, st, AnyInput(S)) IN \A i \in 1..Len(lits) : v[lits[i]] = <<1>>
\* all events of one run, with the reachability sets computed once
EventWhys(S, evs) ==
  LET blocks == { i \in 1..Len(evs) : evs[i].ev = "Block" } IN
  IF blocks = {} THEN {}
  ELSE LET maxf  == CHOOSE f \in { evs[i].frame : i \in blocks } : \A g \in { evs[i].frame : i \in blocks } : g <= f
           upto  == FoldLeft(LAMBDA acc, j : Append(acc, acc[j] \cup LiveSet(S, UNION { Post(S, st) : st \in acc[j] })),
                             << LiveSet(S, InitStates(S)) >>, Idx(maxf))          \* upto[j+1] = live-reachable within j steps
           all   == LiveFix(S, upto[maxf + 1])
           bad(i) == \E st \in (IF evs[i].inf = 1 THEN all ELSE upto[evs[i].frame + 1]) : InCube(S, evs[i].lits, st)
       IN  IF \E i \in blocks : bad(i) THEN {"a blocked cube contains a state reachable within its frame"} ELSE {}
Judge(r, S, m) ==    \* set of <<property, why>>
  LET kind == r.outcome.kind
      RS == IF r.has_sys = 1 THEN r.sys ELSE S
      vprop == IF r.cfg.engine = "bmc" THEN "C02" ELSE "C10"
      reach == IF r.cfg.engine = "bmc" THEN (m >= 0 /\ m <= r.cfg.k) ELSE m >= 0
  IN  (IF kind \notin {"success", "fail"} THEN {<<vprop, "no definite verdict: " \o kind>>}
       ELSE IF (kind = "fail") # reach THEN {<<vprop, IF kind = "fail" THEN "failure reported but no bad state is reachable within the bound" ELSE "success reported but a bad state is reachable within the bound">>}
       ELSE {})
      \* (runs of the command-line tool print the witness of the re-parsed, simplified system: only the verdict is judged)
      \cup (IF kind = "fail" /\ ~("cli" \in DOMAIN r) THEN LET w == WitWhy(RS, r.witness, r.cfg.k) IN IF w = "ok" THEN {} ELSE {<<"C03", w>>} ELSE {})
      \cup (IF kind = "fail" /\ ~("cli" \in DOMAIN r) /\ r.cfg.engine = "bmc" /\ Len(r.witness.inputs) - 1 > r.cfg.k THEN {<<"C03", "witness is longer than the bound">>} ELSE {})
      \cup { <<"C10", w>> : w \in EventWhys(RS, r.events) }
Next == /\ l <= Len(Rec)
        /\ LET r == Rec[l] IN
           /\ sys' = IF r.ev = "Sys" THEN r.sys ELSE sys
           /\ mbd' = IF r.ev = "Sys" THEN MinBadDepth(r.sys) ELSE mbd
           /\ IF r.ev = "Run"
              THEN \A j \in Judge(r, sys, mbd) :
                     PrintT(<<"PV", ToJson([k |-> "reject", l |-> l, id |-> r.id, prop |-> j[1], why |-> j[2], msg |-> r.outcome.msg, mbd |-> mbd])>>)
              ELSE IF r.ev = "Incident"
              THEN PrintT(<<"PV", ToJson([k |-> "reject", l |-> l, id |-> r.id, prop |-> "ALL", why |-> "run did not return: " \o r.kind, msg |-> r.msg, mbd |-> mbd])>>)
              ELSE TRUE
           /\ l' = l + 1
Inv == TRUE
=============================================================================
