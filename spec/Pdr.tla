--------------------------------- MODULE Pdr ---------------------------------
(* Design-level model of patronus' PDR (mc/pdr.rs) over an explicit finite system.
   Cubes are sets of concrete states; frames are delta-encoded (a cube stored in frame j is blocked in
   every R_i with i <= j); the solver is nondeterministic: any satisfying state, and as "unsat core"
   any generalisation that keeps the query unsatisfiable.                                        *)
EXTENDS Naturals, Sequences, FiniteSets, TLC
CONSTANTS NS, MaxFrames, UseCores
S == 0..(NS - 1)
VARIABLES I, T, B,            \* the system: initial states, transition relation, bad states
          frames, finf,       \* frames[j]: set of cubes blocked at frame j;  finf: infinite frame
          obl,                \* proof obligations <<cube, frame>>
          pc, res
vars == <<I, T, B, frames, finf, obl, pc, res>>
N == Len(frames)                                             \* frontier (0 = Init)
Blocked(i) == UNION (UNION { frames[j] : j \in i..N } \cup finf)
R(i)   == IF i = 0 THEN I ELSE S \ Blocked(i)
Rinf   == S \ UNION finf
Pre(X, c, g) == { s \in X \ c : \E t \in g : <<s, t>> \in T }  \* R /\ ~c /\ T /\ g'
PreStd(X, g) == { s \in X : \E t \in g : <<s, t>> \in T }      \* R /\ T /\ g'
\* exact reachability, for the invariants only
RECURSIVE ReachUpTo(_)
ReachUpTo(k) == IF k = 0 THEN I ELSE LET p == ReachUpTo(k-1) IN p \cup { t \in S : \E s \in p : <<s, t>> \in T }
ReachAll == ReachUpTo(NS)

Init == /\ I \in SUBSET S \ {{}} /\ T \in SUBSET (S \X S) /\ B \in SUBSET S
        /\ frames = <<>> /\ finf = {} /\ obl = {} /\ pc = "getbad" /\ res = "none"

\* ---- main loop (pdr.rs:1128-1164)
GetBad == /\ pc = "getbad"
          /\ IF N > MaxFrames THEN pc' = "done" /\ res' = "Unknown" /\ UNCHANGED <<frames, finf, obl>>
             ELSE IF R(N) \cap B # {}
             THEN \E s \in R(N) \cap B : obl' = {<<{s}, N>>} /\ pc' = "block" /\ UNCHANGED <<frames, finf, res>>
             ELSE /\ frames' = Append(frames, {}) /\ pc' = "propagate" /\ UNCHANGED <<finf, obl, res>>
          /\ UNCHANGED <<I, T, B>>

\* ---- block_cube (pdr.rs:918-989): pop a lowest-frame obligation
MinFrame == CHOOSE f \in { o[2] : o \in obl } : \A o \in obl : f <= o[2]
PushTo(g, f) ==                       \* highest frame <= N+... to which g can be pushed starting at f
  LET Ok(ft) == ft <= N /\ Pre(R(ft - 1), g, g) = {}
      RECURSIVE Go(_)
      Go(ft) == IF Ok(ft) THEN Go(ft + 1) ELSE ft - 1
  IN Go(f + 1)
Block == /\ pc = "block"
         /\ IF obl = {} THEN pc' = "getbad" /\ UNCHANGED <<frames, finf, obl, res>>
            ELSE \E o \in { x \in obl : x[2] = MinFrame } :
              LET c == o[1]  f == o[2] IN
              IF f = 0 THEN pc' = "done" /\ res' = "Fail" /\ UNCHANGED <<frames, finf, obl>>
              ELSE IF Pre(R(f - 1), c, c) # {}
              THEN \E s \in Pre(R(f - 1), c, c) : obl' = obl \cup {<<{s}, f - 1>>} /\ UNCHANGED <<frames, finf, pc, res>>
              ELSE  \* unsat: generalise (any superset that keeps the Extended query unsat), re-fix against init
                \E g \in { x \in SUBSET S : c \subseteq x /\ (UseCores \/ x = c) /\ Pre(R(f - 1), c, x) = {} } :
                  IF UseCores /\ c \cap I # {} THEN pc' = "done" /\ res' = "ErrCubeIntersectsInit" /\ UNCHANGED <<frames, finf, obl>>
                  ELSE \E g2 \in { x \in SUBSET g : c \subseteq x /\ (UseCores => x \cap I = {}) /\ (~UseCores => x = c) } :
                    LET ft == PushTo(g2, f) IN
                    /\ frames' = [frames EXCEPT ![ft] = @ \cup {g2}]
                    /\ obl' = obl \ {o}
                    /\ UNCHANGED <<finf, pc, res>>
         /\ UNCHANGED <<I, T, B>>

\* ---- propagate_blocked_cubes (pdr.rs:995-1107), deterministic given set semantics
RECURSIVE PropFrom(_, _)
PropFrom(fr, id) ==               \* returns <<frames, fixpointFrame or 0>>
  IF id >= Len(fr) THEN <<fr, 0>>
  ELSE LET blockedAt(i) == UNION (UNION { fr[j] : j \in i..Len(fr) } \cup finf)
           Rid  == S \ blockedAt(id)
           move == { c \in fr[id] : PreStd(Rid, c) = {} }
           fr2  == [fr EXCEPT ![id] = @ \ move, ![id + 1] = @ \cup move]
       IN IF fr2[id] = {} THEN <<fr2, id>> ELSE PropFrom(fr2, id + 1)
Propagate == /\ pc = "propagate"
             /\ LET p == PropFrom(frames, 1)  fr == p[1]  fix == p[2] IN
                IF fix # 0
                THEN /\ finf' = finf \cup UNION { fr[j] : j \in (fix + 1)..Len(fr) }
                     /\ frames' = [j \in 1..Len(fr) |-> IF j > fix THEN {} ELSE fr[j]]
                     /\ pc' = "done" /\ res' = "Success"
                ELSE LET inf == { c \in fr[Len(fr)] : Pre(S \ UNION finf, c, c) = {} } IN
                     /\ finf' = finf \cup inf
                     /\ frames' = [fr EXCEPT ![Len(fr)] = @ \ inf]
                     /\ pc' = "getbad" /\ res' = res
             /\ UNCHANGED <<I, T, B, obl>>
Done == pc = "done" /\ UNCHANGED vars
Next == GetBad \/ Block \/ Propagate \/ Done
Spec == Init /\ [][Next]_vars /\ WF_vars(Next)

\* ---- the invariants of C10
InitKept   == \A j \in 1..N : \A c \in frames[j] : c \cap I = {}
InfKept    == \A c \in finf : c \cap I = {}
FrameSound == \A j \in 1..N : \A c \in frames[j] : c \cap ReachUpTo(j) = {}
InfSound   == \A c \in finf : c \cap ReachAll = {}
VerdictOK  == /\ res = "Success" => ReachAll \cap B = {}
              /\ res = "Fail"    => ReachAll \cap B # {}
Definite   == pc = "done" => res \in {"Success", "Fail"}
Terminates == <>(pc = "done")
=============================================================================
