CONSTANT BuilderInvariant = TRUE
INIT TInit
NEXT TNext
INVARIANT TInv
CHECK_DEADLOCK FALSE
