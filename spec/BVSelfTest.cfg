INIT Init
NEXT Next
CONSTANT MaxW = 4
INVARIANT Agree
CHECK_DEADLOCK FALSE
