---------------------------- MODULE Trace_C13 ----------------------------
(* (V) C13: within one Context (= one batch) every simplification of the same reference returns the same
   reference - whichever simplifier instance, call order or cache container (sparse map, dense vector,
   the system-wide pass) produced it - every result is a fixed point, and every call returns (no
   Timeout / Panic event has an action here).  State: canon = in_ref -> first out_ref seen in the batch. *)
EXTENDS Naturals, Sequences, TLC, Json, IOUtils
Rec == ndJsonDeserialize(IOEnv.TRACE)
VARIABLES l, canon
Init == l = 1 /\ canon = [x \in {} |-> 0]
Why(r, c) ==
  IF r.ev = "Batch" THEN "ok"
  ELSE IF r.ev = "Timeout" THEN "simplification did not terminate within the watchdog limit"
  ELSE IF r.kind # "ok" THEN "panic"
  ELSE IF r.in_ref \in DOMAIN c /\ c[r.in_ref] # r.out_ref THEN "different result for the same reference"
  ELSE IF r.out_ref \in DOMAIN c /\ c[r.out_ref] # r.out_ref THEN "result is not a fixed point"
  ELSE "ok"
Next == /\ l <= Len(Rec)
        /\ LET r == Rec[l]
               c == IF r.ev = "Batch" THEN [x \in {} |-> 0] ELSE canon
               w == Why(r, c) IN
           /\ IF w = "ok" THEN TRUE
              ELSE PrintT(<<"PV", ToJson([k |-> "reject", l |-> l, why |-> w, batch |-> r.batch, inst |-> r.inst,
                                          cache |-> r.cache, in_ref |-> r.in_ref, out_ref |-> r.out_ref, loc |-> r.loc])>>)
           /\ canon' = IF r.ev = "Simp" /\ r.kind = "ok" /\ r.in_ref \notin DOMAIN c
                       THEN (r.in_ref :> r.out_ref) @@ c ELSE c
           /\ l' = l + 1
Inv == TRUE
=============================================================================
