---------------------------- MODULE Trace_C15 ----------------------------
(* (V) C15: a model-checking run during which the solver misbehaved at one response (error reply of a given
   length, `unknown`, empty reply, truncated reply followed by exit, plain exit, exit with non-zero status, or
   garbage) must return an error - or an Unknown verdict - in bounded time.  It may not report success or failure
   (the faulty response is one the verdict rests on: every response-bearing command before the end of the
   fault-free conversation is), may not panic and may not hang; an error message printed by the solver must be
   carried, unmangled, in the returned error.
   Records: "Base" (fault-free run), "Fault" (same run with one fault), "Incident" (the worker had to be killed
   because a call did not return, or died). *)
EXTENDS Naturals, Sequences, TLC, Json, IOUtils
Rec == ndJsonDeserialize(IOEnv.TRACE)
VARIABLE l
Init == l = 1
Next == l <= Len(Rec) /\ l' = l + 1
Why(r) ==
  CASE r.ev = "Incident" -> (IF r.kind = "timeout" THEN "call did not return within the watchdog limit (hang)" ELSE "process died")
    [] r.ev = "Base" -> (IF r.outcome.kind \in {"success", "fail"} THEN "ok" ELSE "harness: fault-free run has no verdict")
    [] r.ev = "Fault" ->
         LET k == r.outcome.kind IN
         IF k = "panic" THEN "panic"
         ELSE IF k \in {"success", "fail"} THEN "verdict reported although a solver response was faulty"
         ELSE IF k \notin {"err", "unknown"} THEN "unexpected outcome"
         ELSE IF r.cfg.fault_kind = "error" /\ r.carried # 1 THEN "solver's error message is not carried verbatim in the returned error"
         ELSE "ok"
    [] OTHER -> "ok"
Inv == l <= Len(Rec) => LET w == Why(Rec[l]) IN
         IF w = "ok" THEN TRUE
         ELSE PrintT(<<"PV", ToJson([k |-> "reject", l |-> l, id |-> Rec[l].id, why |-> w])>>)
=============================================================================
