---------------------------- MODULE Trace_SmtLet ----------------------------
(* (V) binding of SmtLetParser.tla to smt/parser.rs: every term of the model's language, written as SMT-LIB text
   (f = bvxor, c0 = #b00, c1 = #b01, a and b declared 2-bit symbols, x undeclared) and read by the real parse_expr.
   The model's machine predicts the outcome: an error exactly when Machine(..) = ERR, otherwise an expression with the
   value of the predicted term under every assignment of a and b. *)
EXTENDS SmtLetParser, Expr, Envs, IOUtils
Rec == ndJsonDeserialize(IOEnv.TRACE)
VARIABLE l
TInit == l = 1 /\ tm = 0
TNext == l <= Len(Rec) /\ l' = l + 1 /\ UNCHANGED tm
RECURSIVE Val(_, _)
Val(p, env) == CASE p.k = "c" -> IF p.v = 0 THEN <<0, 0>> ELSE <<1, 0>>
                 [] p.k = "sym" -> env[p.n]
                 [] OTHER -> Xor(Val(p.a, env), Val(p.b, env))
Envs2 == { [a |-> x, b |-> y] : x \in AllBV(2), y \in AllBV(2) }
(* The judgement (C14) uses the standard meaning Ref as the oracle; a term with a let of several bindings that the reader
   rejects is the known limitation (class let-with-several-bindings).  Separately, a difference between the real outcome
   and the model's machine is reported as model drift (k = "model"), which is not a violation. *)
Same(r, p) == /\ r.kind = "ok" /\ WellTyped(r.nodes) /\ TypesAll(r.nodes)[r.root] = BVT(2) /\ SymNames(r.nodes) \subseteq {"a", "b"}
              /\ \A env \in Envs2 : EvalAll(r.nodes, env)[r.root] = Val(p, env)
Why(r) ==
  LET ref == Ref(r.term, TopEnv) IN
  IF r.kind = "panic" THEN "panic"
  ELSE IF ref = ERR THEN (IF r.kind = "error" THEN "ok" ELSE "a term without a meaning (unbound symbol) was read as a value")
  ELSE IF r.kind = "error" THEN "well-formed model value was rejected"
  ELSE IF ~Same(r, ref) THEN "a let term was read as a different value than it denotes"
  ELSE "ok"
Drift(r) == LET m == Machine(Toks(r.term)) IN
            r.kind # "panic" /\ ~(IF m = ERR THEN r.kind = "error" ELSE Same(r, m))
TInv == l <= Len(Rec) =>
          LET w == Why(Rec[l]) IN
          /\ IF w = "ok" THEN TRUE ELSE PrintT(<<"PV", ToJson([k |-> "reject", l |-> l, id |-> Rec[l].id, why |-> w, text |-> Rec[l].text, loc |-> Rec[l].loc,
                                                               cls |-> IF HasMulti(Rec[l].term) THEN "let-with-several-bindings" ELSE ""])>>)
          /\ IF ~Drift(Rec[l]) THEN TRUE ELSE PrintT(<<"PV", ToJson([k |-> "model", l |-> l, id |-> Rec[l].id, text |-> Rec[l].text])>>)
=============================================================================
