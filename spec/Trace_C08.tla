---------------------------- MODULE Trace_C08 ----------------------------
(* (V) C08: for every generated btor2 file, what patronus::btor2::parse_str returned is judged against the
   meaning Btor2.tla gives the text, line by line:
     - a file with a line whose declared sort disagrees with its operands is never accepted;
     - a well-formed file over the supported operators is accepted; inputs and states get their declared
       sorts and names (states with neither init nor next become inputs); and for every valuation each
       init, next, output, bad and constraint function of the parsed system has the value of the line it
       refers to (negated references, operand order, derived operators, constants in all bases, read/write,
       bit-vector init of array states).
   Record: [id, lines, outcome ("ok" | "none" | "panic"), loc, sys]. *)
EXTENDS Btor2, Envs, Json, IOUtils
Rec == ndJsonDeserialize(IOEnv.TRACE)
VARIABLE l
Init == l = 1
Next == l <= Len(Rec) /\ l' = l + 1
TJ(j) == IF j.k = "bv" THEN BVT(j.w) ELSE ArrT(j.iw, j.dw)
UsedNamesOf(S) == { S.nodes[i].name : i \in { j \in 1..Len(S.nodes) : IsSym(S.nodes[j]) } }
Tagged(lines, tg) == SelectSeq(lines, LAMBDA ln : ln.tag = tg)
StateIds(lines, tg) == { ln.a[1] : ln \in { lines[k] : k \in { q \in 1..Len(lines) : lines[q].tag = tg } } }
Compare(r) ==
  LET lines == r.lines  S == r.sys
      stl   == Tagged(lines, "state")  inl == Tagged(lines, "input")
      live  == StateIds(lines, "init") \cup StateIds(lines, "next")
      expS  == SelectSeq(stl, LAMBDA ln : ln.id \in live)
      expI  == inl \o SelectSeq(stl, LAMBDA ln : ln.id \notin live)
      ss    == [p \in 1..(Len(inl) + Len(stl)) |->
                 LET ln == IF p <= Len(inl) THEN inl[p] ELSE stl[p - Len(inl)] IN [name |-> ln.name, t |-> SortType(lines, ln.sort)]]
      initOf(id) == { k \in 1..Len(lines) : lines[k].tag = "init" /\ lines[k].a[1] = id }
      nextOf(id) == { k \in 1..Len(lines) : lines[k].tag = "next" /\ lines[k].a[1] = id }
      outs == Tagged(lines, "output")  bads == Tagged(lines, "bad")  cons == Tagged(lines, "constraint")
  IN
  IF Len(S.states) # Len(expS) \/ Len(S.inputs) # Len(expI) THEN "wrong number of states or inputs"
  ELSE IF \E p \in 1..Len(expS) : TJ(S.states[p].t) # SortType(lines, expS[p].sort) \/ S.states[p].is_sym # 1 THEN "a state has the wrong sort"
  ELSE IF \E p \in 1..Len(expI) : TJ(S.inputs[p].t) # SortType(lines, expI[p].sort) \/ S.inputs[p].is_sym # 1 THEN "an input has the wrong sort"
  ELSE IF Len(S.outputs) # Len(outs) \/ Len(S.bads) # Len(bads) \/ Len(S.constraints) # Len(cons) THEN "wrong number of outputs, bad states or constraints"
  ELSE IF \E p \in 1..Len(expS) :
            (S.states[p].init = 0) # (initOf(expS[p].id) = {}) \/ (S.states[p].next = 0) # (nextOf(expS[p].id) = {}) THEN "init or next attached to the wrong state"
  ELSE IF ~WellTyped(S.nodes) THEN "parsed system is not well-typed"
  ELSE IF \E env \in EnvsFor(ss, l, 8) :
            \* the parsed system's symbols are bound by position: k-th state = "s<k>", k-th input = "i<k>"
            LET envP == [nm \in { S.states[p].name : p \in 1..Len(S.states) } \cup { S.inputs[p].name : p \in 1..Len(S.inputs) } |->
                          LET ps == { p \in 1..Len(S.states) : S.states[p].name = nm } IN
                          IF ps # {} THEN env[expS[CHOOSE p \in ps : TRUE].name]
                          ELSE env[expI[CHOOSE p \in 1..Len(S.inputs) : S.inputs[p].name = nm].name]]
                fv == FileVals(lines, env)  v == EvalAll(S.nodes, envP) IN
            \/ \E p \in 1..Len(expS) :
                 LET t == SortType(lines, expS[p].sort) IN
                 \/ \E k \in initOf(expS[p].id) :
                      LET raw == ValOfRef(lines, fv, lines[k].a[2])
                          want == IF t.k = "arr" /\ NodeType(lines, lines[k].a[2]).k = "bv" THEN ArrConst(t.iw, raw) ELSE raw IN
                      ~ValEq(t, v[S.states[p].init], want)
                 \/ \E k \in nextOf(expS[p].id) : ~ValEq(t, v[S.states[p].next], ValOfRef(lines, fv, lines[k].a[2]))
            \/ \E p \in 1..Len(outs) : ~ValEq(NodeType(lines, outs[p].a[1]), v[S.outputs[p].expr], ValOfRef(lines, fv, outs[p].a[1]))
            \/ \E p \in 1..Len(bads) : v[S.bads[p]] # ValOfRef(lines, fv, bads[p].a[1])
            \/ \E p \in 1..Len(cons) : v[S.constraints[p]] # ValOfRef(lines, fv, cons[p].a[1])
       THEN "a function of the parsed system differs from the btor2 meaning of its line"
  ELSE IF ~(UsedNamesOf(S) \subseteq ({ S.states[p].name : p \in 1..Len(S.states) } \cup { S.inputs[p].name : p \in 1..Len(S.inputs) })) THEN "a symbol that is neither a state nor an input occurs in the parsed system"
  ELSE "ok"
Why(r) ==
  LET ok == FileOK(r.lines) IN
  IF ~ok THEN (IF r.outcome = "ok" THEN "ill-sorted file accepted" ELSE "ok")
  ELSE IF r.outcome = "panic" THEN "panic on a well-formed file"
  ELSE IF r.outcome = "none" THEN "well-formed file rejected"
  ELSE Compare(r)
Inv == l <= Len(Rec) => LET w == Why(Rec[l]) IN
         IF w = "ok" THEN TRUE ELSE PrintT(<<"PV", ToJson([k |-> "reject", l |-> l, id |-> Rec[l].id, why |-> w, loc |-> Rec[l].loc, wellformed |-> FileOK(Rec[l].lines)])>>)
\* statistics for the evidence: how many records were well-formed / ill-sorted according to the spec
=============================================================================
