------------------------------- MODULE Envs -------------------------------
(* Assignments ("for every assignment of its symbols"): exhaustive when the symbols total few bits,
   otherwise a deterministic corner set plus seeded pseudo-random assignments, all chosen in TLA+. *)
EXTENDS Expr

\* symbol descriptors in order of first occurrence: [name, t]
SymSeq(nodes) ==
  LET first(i) == \A j \in 1..(i-1) : ~(IsSym(nodes[j]) /\ nodes[j].name = nodes[i].name)
      idx == SelectSeq(Idx(Len(nodes)), LAMBDA i : IsSym(nodes[i]) /\ first(i))
  IN  [p \in 1..Len(idx) |-> [name |-> nodes[idx[p]].name, t |-> SymType(nodes[idx[p]])]]
\* symbols of two node tables (second table may add new ones)
SymSeq2(n1, n2) ==
  LET s1 == SymSeq(n1) s2 == SymSeq(n2)
      extra == SelectSeq(s2, LAMBDA s : \A p \in 1..Len(s1) : s1[p].name # s.name)
  IN  s1 \o extra

AllBV(w)      == [1..w -> {0, 1}]
TBits(t)      == IF t.k = "bv" THEN t.w ELSE IF t.iw > 3 THEN 1000 ELSE t.dw * (2^t.iw)
TotalBits(ss) == FoldLeft(LAMBDA acc, p : IF acc > 1000 THEN acc ELSE acc + TBits(ss[p].t), 0, Idx(Len(ss)))
AllVals(t)    == IF t.k = "bv" THEN AllBV(t.w)
                 ELSE { [iw |-> t.iw, dw |-> t.dw, def |-> Zero(t.dw), m |-> f] : f \in [AllBV(t.iw) -> AllBV(t.dw)] }
AllEnvs(ss)   == FoldLeft(LAMBDA acc, p : { (ss[p].name :> v) @@ f : f \in acc, v \in AllVals(ss[p].t) },
                          { EmptyFn }, Idx(Len(ss)))

\* eight corner values per width
NC == 8
Corner(w, c) ==
  CASE c = 0 -> Zero(w)
    [] c = 1 -> Ones(w)
    [] c = 2 -> One(w)
    [] c = 3 -> [i \in 1..w |-> IF i = w THEN 1 ELSE 0]
    [] c = 4 -> [i \in 1..w |-> IF i = w THEN 0 ELSE 1]
    [] c = 5 -> [i \in 1..w |-> i % 2]
    [] c = 6 -> [i \in 1..w |-> (i + 1) % 2]
    [] OTHER -> [i \in 1..w |-> IF i > (w \div 2) THEN 1 ELSE 0]
\* small linear congruential generator (all intermediate values < 2^31)
Lcg(x)        == (x * 75 + 74) % 65537
RandBV(w, sd) == FoldLeft(LAMBDA acc, i : << Lcg(acc[1]), Append(acc[2], (acc[1] \div 16) % 2) >>,
                          << Lcg(Lcg((sd % 65521) + 1)), <<>> >>, Idx(w))[2]
NatBits(n, w) == [i \in 1..w |-> IF i <= 20 THEN (n \div (2^(i-1))) % 2 ELSE 0]
\* array values: total functions for small index widths, default + three entries otherwise
PickArr(t, gen(_, _)) ==
  IF t.iw <= 4
  THEN [iw |-> t.iw, dw |-> t.dw, def |-> Zero(t.dw),
        m |-> [ix \in AllBV(t.iw) |-> gen(t.dw, FoldLeft(LAMBDA a, i : a * 2 + ix[i], 1, Idx(t.iw)))]]
  ELSE [iw |-> t.iw, dw |-> t.dw, def |-> gen(t.dw, 0),
        m |-> [ix \in { gen(t.iw, 1), gen(t.iw, 2), Zero(t.iw) } |-> gen(t.dw, 3 + ix[1])]]
CornerVal(t, c, j) == IF t.k = "bv" THEN Corner(t.w, c)
                      ELSE PickArr(t, LAMBDA w, q : Corner(w, (c + q + j) % NC))
RandVal(t, sd)     == IF t.k = "bv" THEN RandBV(t.w, sd)
                      ELSE PickArr(t, LAMBDA w, q : RandBV(w, sd + 131 * q))
\* corner environments: symbol j gets corner (e + j * (e \div NC)) % NC  -> all pairs for two symbols
CornerEnvs(ss) == { [nm \in { ss[p].name : p \in 1..Len(ss) } |->
                       LET p == CHOOSE q \in 1..Len(ss) : ss[q].name = nm IN
                       CornerVal(ss[p].t, ((e % NC) + (p - 1) * (e \div NC)) % NC, p)]
                    : e \in 0..(NC * NC - 1) }
RandEnvs(ss, seed, n) == { [nm \in { ss[p].name : p \in 1..Len(ss) } |->
                              LET p == CHOOSE q \in 1..Len(ss) : ss[q].name = nm IN
                              RandVal(ss[p].t, seed + 7919 * e + 104 * p)]
                           : e \in 1..n }
\* the first n corner environments (diagonal first: e = 0, 9, 18, ... pairs every symbol with the same corner)
CornerEnvsN(ss, n) == { [nm \in { ss[p].name : p \in 1..Len(ss) } |->
                          LET p == CHOOSE q \in 1..Len(ss) : ss[q].name = nm IN
                          CornerVal(ss[p].t, ((((e * 9) % 64) % NC) + (p - 1) * (((e * 9) % 64) \div NC)) % NC, p)]
                        : e \in 0..(n - 1) }
MaxExhBits == 10
Exhaustive(ss) == TotalBits(ss) <= MaxExhBits
EnvsFor(ss, seed, nrand) == IF Exhaustive(ss) THEN AllEnvs(ss) ELSE CornerEnvs(ss) \cup RandEnvs(ss, seed, nrand)
=============================================================================
