------------------------------- MODULE Expr -------------------------------
(* patronus IR as node tables: nodes[i] = [op |-> ..., a |-> <<child indices>>, ...attrs];
   children precede parents.  Values: bit-vectors (BV.tla) or arrays
   [iw |-> .., dw |-> .., def |-> BV, m |-> function BV -> BV]. *)
EXTENDS BV, FiniteSets, TLC

BVT(w)        == [k |-> "bv", w |-> w]
ArrT(iw, dw)  == [k |-> "arr", iw |-> iw, dw |-> dw]
BAD           == [k |-> "bad"]

EmptyFn       == [x \in {} |-> 0]
ArrConst(iw, v)   == [iw |-> iw, dw |-> Len(v), def |-> v, m |-> EmptyFn]
Select(arr, i)    == IF i \in DOMAIN arr.m THEN arr.m[i] ELSE arr.def
Store(arr, i, d)  == [arr EXCEPT !.m = (i :> d) @@ arr.m]
ArrEq(x, y)   == LET keys == DOMAIN x.m \cup DOMAIN y.m IN
                 /\ \A kk \in keys : Select(x, kk) = Select(y, kk)
                 /\ (x.def = y.def \/ (x.iw <= 20 /\ Cardinality(keys) = 2^(x.iw)))
\* JSON array value -> spec array value
\* "ents" lists <<index, data>> pairs, later entries win
ArrOfJson(j)  == [iw |-> j.iw, dw |-> j.dw, def |-> j.def,
                  m |-> [kk \in { j.ents[p][1] : p \in 1..Len(j.ents) } |->
                           j.ents[CHOOSE p \in 1..Len(j.ents) :
                                    j.ents[p][1] = kk /\ \A q \in (p+1)..Len(j.ents) : j.ents[q][1] # kk][2]]]

(* ---- typing: TypeOf(n, ts) gives the type of node n from its children's types ts, or BAD ---- *)
IsBV(t)       == t.k = "bv"
Same2(ts, n)  == IsBV(ts[n.a[1]]) /\ ts[n.a[1]] = ts[n.a[2]]
TypeNode(n, ts) ==
  LET t1 == ts[n.a[1]] t2 == ts[n.a[2]] t3 == ts[n.a[3]] IN
  CASE n.op = "bvsym"  -> IF n.w >= 1 THEN BVT(n.w) ELSE BAD
    [] n.op = "bvlit"  -> IF Len(n.bits) >= 1 THEN BVT(Len(n.bits)) ELSE BAD
    [] n.op = "arrsym" -> IF n.iw >= 1 /\ n.dw >= 1 THEN ArrT(n.iw, n.dw) ELSE BAD
    [] n.op \in {"zext", "sext"} -> IF IsBV(t1) /\ n.w = t1.w + n.by THEN BVT(n.w) ELSE BAD
    [] n.op = "slice"  -> IF IsBV(t1) /\ n.lo <= n.hi /\ n.hi < t1.w THEN BVT(n.hi - n.lo + 1) ELSE BAD
    [] n.op \in {"not", "neg"} -> IF IsBV(t1) /\ n.w = t1.w THEN t1 ELSE BAD
    [] n.op \in {"eq", "ugt", "uge"} -> IF Same2(ts, n) THEN BVT(1) ELSE BAD
    [] n.op \in {"sgt", "sge"} -> IF Same2(ts, n) /\ n.ow = t1.w THEN BVT(1) ELSE BAD
    [] n.op = "implies" -> IF t1 = BVT(1) /\ t2 = BVT(1) THEN BVT(1) ELSE BAD
    [] n.op = "concat" -> IF IsBV(t1) /\ IsBV(t2) /\ n.w = t1.w + t2.w THEN BVT(n.w) ELSE BAD
    [] n.op \in {"and", "or", "xor", "shl", "ashr", "lshr", "add", "mul", "sub",
                 "sdiv", "udiv", "smod", "srem", "urem"} -> IF Same2(ts, n) /\ n.w = t1.w THEN t1 ELSE BAD
    [] n.op = "read"   -> IF t1.k = "arr" /\ t2 = BVT(t1.iw) /\ n.w = t1.dw THEN BVT(t1.dw) ELSE BAD
    [] n.op = "ite"    -> IF t1 = BVT(1) /\ IsBV(t2) /\ t2 = t3 THEN t2 ELSE BAD
    [] n.op = "arrconst" -> IF IsBV(t1) /\ n.dw = t1.w /\ n.iw >= 1 THEN ArrT(n.iw, n.dw) ELSE BAD
    [] n.op = "arreq"  -> IF t1.k = "arr" /\ t1 = t2 THEN BVT(1) ELSE BAD
    [] n.op = "store"  -> IF t1.k = "arr" /\ t2 = BVT(t1.iw) /\ t3 = BVT(t1.dw) THEN t1 ELSE BAD
    [] n.op = "arrite" -> IF t1 = BVT(1) /\ t2.k = "arr" /\ t2 = t3 THEN t2 ELSE BAD
    [] OTHER -> BAD
\* children indices padded so that ts[n.a[3]] is always defined: use index 0 -> BAD via Pad
Pad(ts)       == [i \in 0..Len(ts) |-> IF i = 0 THEN BAD ELSE ts[i]]
Kids(n)       == n.a
Norm(n)       == [n EXCEPT !.a = [j \in 1..3 |-> IF j <= Len(Kids(n)) THEN Kids(n)[j] ELSE 0]]
Arity(op) == CASE op \in {"bvsym", "bvlit", "arrsym"} -> 0
               [] op \in {"zext", "sext", "slice", "not", "neg", "arrconst"} -> 1
               [] op \in {"ite", "store", "arrite"} -> 3
               [] OTHER -> 2
TypesAll(nodes) ==
  FoldLeft(LAMBDA ts, i :
             LET n == nodes[i]
                 ok == /\ Len(Kids(n)) = Arity(n.op)
                       /\ \A j \in 1..Len(Kids(n)) : Kids(n)[j] \in 1..(i-1) /\ ts[Kids(n)[j]] # BAD
             IN Append(ts, IF ok THEN TypeNode([Norm(n) EXCEPT !.op = n.op], Pad(ts)) ELSE BAD),
           <<>>, Idx(Len(nodes)))
WellTyped(nodes) == \A i \in 1..Len(nodes) : TypesAll(nodes)[i] # BAD

(* ---- evaluation ---- *)
EvalNode(n, v, env) ==
  LET x == v[n.a[1]] y == v[n.a[2]] z == v[n.a[3]] IN
  CASE n.op = "bvsym"  -> env[n.name]
    [] n.op = "arrsym" -> env[n.name]
    [] n.op = "bvlit"  -> n.bits
    [] n.op = "zext"   -> ZExt(x, n.by)
    [] n.op = "sext"   -> SExt(x, n.by)
    [] n.op = "slice"  -> Extract(x, n.hi, n.lo)
    [] n.op = "not"    -> Not(x)
    [] n.op = "neg"    -> Neg(x)
    [] n.op = "eq"     -> BoolBV(x = y)
    [] n.op = "implies" -> BoolBV(x = <<0>> \/ y = <<1>>)
    [] n.op = "ugt"    -> BoolBV(Ugt(x, y))
    [] n.op = "sgt"    -> BoolBV(Sgt(x, y))
    [] n.op = "uge"    -> BoolBV(Uge(x, y))
    [] n.op = "sge"    -> BoolBV(Sge(x, y))
    [] n.op = "concat" -> Concat(x, y)
    [] n.op = "and"    -> And(x, y)
    [] n.op = "or"     -> Or(x, y)
    [] n.op = "xor"    -> Xor(x, y)
    [] n.op = "shl"    -> Shl(x, y)
    [] n.op = "ashr"   -> Ashr(x, y)
    [] n.op = "lshr"   -> Lshr(x, y)
    [] n.op = "add"    -> Add(x, y)
    [] n.op = "mul"    -> Mul(x, y)
    [] n.op = "sub"    -> Sub(x, y)
    [] n.op = "sdiv"   -> Sdiv(x, y)
    [] n.op = "udiv"   -> Udiv(x, y)
    [] n.op = "smod"   -> Smod(x, y)
    [] n.op = "srem"   -> Srem(x, y)
    [] n.op = "urem"   -> Urem(x, y)
    [] n.op = "read"   -> Select(x, y)
    [] n.op = "ite"    -> IF x = <<1>> THEN y ELSE z
    [] n.op = "arrconst" -> ArrConst(n.iw, x)
    [] n.op = "arreq"  -> BoolBV(ArrEq(x, y))
    [] n.op = "store"  -> Store(x, y, z)
    [] n.op = "arrite" -> IF x = <<1>> THEN y ELSE z
PadV(v)       == [i \in 0..Len(v) |-> IF i = 0 THEN <<>> ELSE v[i]]
(* TLC evaluates [i \in 1..w |-> e] lazily and re-evaluates e on every access (Len, application): values built by
   Not / And / Xor / ShlK ... would form chains that are re-walked for every bit of every later node - exponential in
   shared DAGs (a 1085-node design did not finish in 15 minutes).  Every bit-vector node value is therefore made an
   explicit tuple once (s \o <<>> converts and returns the tuple); array values are records of explicit parts. *)
ArrValued(op) == op \in {"arrsym", "arrconst", "store", "arrite"}
Force(n, v)   == IF ArrValued(n.op) THEN v ELSE v \o <<>>
EvalAll(nodes, env) ==
  FoldLeft(LAMBDA v, i : Append(v, Force(nodes[i], EvalNode(Norm(nodes[i]), PadV(v), env))), <<>>, Idx(Len(nodes)))
Eval(nodes, root, env) == EvalAll(nodes, env)[root]
\* evaluation with a value supplied for node ovi (0 = none): that sub-tree is not evaluated
EvalAllOv(nodes, env, ovi, ovv) ==
  FoldLeft(LAMBDA v, i : Append(v, IF i = ovi THEN ovv ELSE Force(nodes[i], EvalNode(Norm(nodes[i]), PadV(v), env))), <<>>, Idx(Len(nodes)))

(* ---- JSON interchange: tagged values  [t, bits, iw, dw, def, ents] ---- *)
ValOfJson(j)  == IF j.t = "bv" THEN j.bits ELSE ArrOfJson(j)
EnvOfJson(j)  == [nm \in DOMAIN j |-> ValOfJson(j[nm])]
\* compact values: a bit-vector is its bit tuple, an array is [def, ents, total]; the shape follows from the type t
ArrOfC(t, j)  == [iw |-> t.iw, dw |-> t.dw, def |-> j.def,
                  m |-> [kk \in { j.ents[p][1] : p \in 1..Len(j.ents) } |->
                           j.ents[CHOOSE p \in 1..Len(j.ents) :
                                    j.ents[p][1] = kk /\ \A q \in (p+1)..Len(j.ents) : j.ents[q][1] # kk][2]]]
ValOfC(t, j)  == IF t.k = "bv" THEN j ELSE ArrOfC(t, j)
\* equality of two values of (spec) type t
ValEq(t, x, y) == IF t.k = "arr" THEN ArrEq(x, y) ELSE x = y
\* nodes reachable from a set of roots; children precede parents in a node table, so one backward sweep suffices
\* (a recursive walk re-visits shared sub-terms: exponential on designs with deep sharing)
ReachFrom(nodes, roots) ==
  FoldLeft(LAMBDA M, k : LET i == Len(nodes) + 1 - k IN
             IF i \in M THEN M \cup { nodes[i].a[j] : j \in 1..Len(nodes[i].a) } ELSE M,
           roots, Idx(Len(nodes)))
\* symbol nodes
IsSym(n)      == n.op \in {"bvsym", "arrsym"}
SymIdx(nodes) == { i \in 1..Len(nodes) : IsSym(nodes[i]) }
SymNames(nodes) == { nodes[i].name : i \in SymIdx(nodes) }
SymType(n)    == IF n.op = "bvsym" THEN BVT(n.w) ELSE ArrT(n.iw, n.dw)
\* no name is used at two different types (name-keyed environments would be ambiguous)
NamesUnambiguous(nodes) == \A i, j \in SymIdx(nodes) : nodes[i].name = nodes[j].name => SymType(nodes[i]) = SymType(nodes[j])
=============================================================================
