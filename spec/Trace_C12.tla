---------------------------- MODULE Trace_C12 ----------------------------
(* (V) C12: expression references are canonical and stable.  Shadow maps kept by the spec:
   byRef  : reference -> structural node (operator, attributes, operand references, type, name)
   byNode : structural node -> reference
   Every Build / Lookup event of the real Context must keep both maps functional (same node => same
   reference, same reference => same node, for ever), the built node must be the requested one or its
   documented normal form (full-width slice / extension by 0 return the operand), strings intern
   likewise, and true/false are two fixed references denoting the 1-bit literals 1 and 0.
   A "Reset" event starts a fresh Context. *)
EXTENDS Naturals, Sequences, FiniteSets, TLC, Json, IOUtils
Rec == ndJsonDeserialize(IOEnv.TRACE)
VARIABLES l, byRef, byNode, strByRef, strByVal, tf
Empty == [x \in {} |-> 0]
Init == l = 1 /\ byRef = Empty /\ byNode = Empty /\ strByRef = Empty /\ strByVal = Empty /\ tf = <<0, 0>>
Why(r) ==
  CASE r.ev = "Reset" -> "ok"
    [] r.ev = "Consts" ->
         IF tf # <<0, 0>> /\ tf # <<r.t, r.f>> THEN "true/false moved"
         ELSE IF r.t = r.f THEN "true and false are the same reference"
         ELSE IF r.tnode # "bvlit|w=1|bits=1" \/ r.fnode # "bvlit|w=1|bits=0" THEN "true/false do not denote the 1-bit literals"
         ELSE "ok"
    [] r.ev = "Str" ->
         IF r.sref \in DOMAIN strByRef /\ strByRef[r.sref] # r.s THEN "a string reference changed its meaning"
         ELSE IF r.s \in DOMAIN strByVal /\ strByVal[r.s] # r.sref THEN "same string, different reference"
         ELSE "ok"
    [] r.ev \in {"Build", "Lookup"} ->
         IF r.ref \in DOMAIN byRef /\ byRef[r.ref] # r.node THEN "a reference changed its meaning"
         ELSE IF r.node \in DOMAIN byNode /\ byNode[r.node] # r.ref THEN "same expression, different reference"
         ELSE IF r.ev = "Build" /\ r.norm = 0 /\ r.node # r.req THEN "built node is not the requested one"
         ELSE IF r.ev = "Build" /\ r.norm = 1 /\ r.ref # r.operand THEN "normalising builder did not return its operand"
         ELSE "ok"
    [] OTHER -> "unknown event"
Next == /\ l <= Len(Rec)
        /\ LET r == Rec[l]  w == Why(r) IN
           /\ IF w = "ok" THEN TRUE ELSE PrintT(<<"PV", ToJson([k |-> "reject", l |-> l, why |-> w, ev |-> r.ev])>>)
           /\ IF r.ev = "Reset"
              THEN byRef' = Empty /\ byNode' = Empty /\ strByRef' = Empty /\ strByVal' = Empty /\ tf' = <<0, 0>>
              ELSE /\ tf' = IF r.ev = "Consts" /\ tf = <<0, 0>> THEN <<r.t, r.f>> ELSE tf
                   /\ byRef' = IF r.ev \in {"Build", "Lookup"} /\ r.ref \notin DOMAIN byRef THEN (r.ref :> r.node) @@ byRef ELSE byRef
                   /\ byNode' = IF r.ev \in {"Build", "Lookup"} /\ r.node \notin DOMAIN byNode THEN (r.node :> r.ref) @@ byNode ELSE byNode
                   /\ strByRef' = IF r.ev = "Str" /\ r.sref \notin DOMAIN strByRef THEN (r.sref :> r.s) @@ strByRef ELSE strByRef
                   /\ strByVal' = IF r.ev = "Str" /\ r.s \notin DOMAIN strByVal THEN (r.s :> r.sref) @@ strByVal ELSE strByVal
           /\ l' = l + 1
Inv == TRUE
=============================================================================
