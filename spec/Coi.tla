---- MODULE Coi ----
(* Design-level model of cone_of_influence_impl (system/analysis.rs:80-130): explicit-stack traversal
   with a visited set, following children and - per variant - init/next links of states.
   Explored over ALL graphs with NN nodes: node kinds, child sets (to lower-numbered nodes only, the
   expression DAG), init/next links of states (to any node: next links may form cycles).          *)
EXTENDS Naturals, Sequences, FiniteSets, TLC
CONSTANT NN
Nodes == 1..NN
VARIABLES kind, kids, ini, nxt,      \* the graph
          root, fNext, fInit,        \* the query
          todo, visited, out, pc
vars == <<kind, kids, ini, nxt, root, fNext, fInit, todo, visited, out, pc>>
Init == /\ kind \in [Nodes -> {"state", "input", "op"}]
        /\ kids \in [Nodes -> SUBSET Nodes]
        /\ \A i \in Nodes : (kind[i] = "op" => kids[i] \subseteq 1..(i-1) /\ kids[i] # {}) /\ (kind[i] # "op" => kids[i] = {})
        /\ ini \in [Nodes -> 0..NN] /\ nxt \in [Nodes -> 0..NN]
        /\ \A i \in Nodes : kind[i] # "state" => ini[i] = 0 /\ nxt[i] = 0
        /\ root \in Nodes /\ fNext \in BOOLEAN /\ fInit \in BOOLEAN /\ (fNext => fInit)   \* the three shipped variants
        /\ todo = <<root>> /\ visited = {} /\ out = <<>> /\ pc = "run"
Pop  == todo[Len(todo)]
Rest == SubSeq(todo, 1, Len(todo) - 1)
SeqOf(set) == CHOOSE s \in [1..Cardinality(set) -> set] : \A x \in set : \E j \in 1..Cardinality(set) : s[j] = x
Step == /\ pc = "run"
        /\ IF todo = <<>> THEN pc' = "done" /\ UNCHANGED <<todo, visited, out>>
           ELSE LET e == Pop IN
                IF e \in visited THEN todo' = Rest /\ UNCHANGED <<visited, out, pc>>
                ELSE LET ch  == { c \in kids[e] : c \notin visited }
                         lnk == (IF kind[e] = "state" /\ fInit /\ ini[e] # 0 /\ ini[e] \notin visited THEN {ini[e]} ELSE {})
                                \cup (IF kind[e] = "state" /\ fNext /\ nxt[e] # 0 /\ nxt[e] \notin visited THEN {nxt[e]} ELSE {})
                     IN /\ todo' = Rest \o SeqOf(ch) \o SeqOf(lnk)
                        /\ out' = IF kind[e] \in {"state", "input"} THEN Append(out, e) ELSE out
                        /\ visited' = visited \cup {e}
                        /\ pc' = pc
        /\ UNCHANGED <<kind, kids, ini, nxt, root, fNext, fInit>>
Done == pc = "done" /\ UNCHANGED vars
Next == Step \/ Done
Spec == Init /\ [][Next]_vars /\ WF_vars(Next)
\* specification of the result: symbols syntactically reachable through the relevant links
Succ(i) == kids[i] \cup (IF kind[i] = "state" /\ fInit /\ ini[i] # 0 THEN {ini[i]} ELSE {})
                   \cup (IF kind[i] = "state" /\ fNext /\ nxt[i] # 0 THEN {nxt[i]} ELSE {})
RECURSIVE Clo(_)
Clo(set) == LET n2 == set \cup UNION { Succ(i) : i \in set } IN IF n2 = set THEN set ELSE Clo(n2)
Expected == { i \in Clo({root}) : kind[i] \in {"state", "input"} }
OutSet == { out[j] : j \in 1..Len(out) }
Exact   == pc = "done" => OutSet = Expected
NoDup   == \A i, j \in 1..Len(out) : out[i] = out[j] => i = j
OnlySym == \A j \in 1..Len(out) : kind[out[j]] \in {"state", "input"}
Terminates == <>(pc = "done")
====
