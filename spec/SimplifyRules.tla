--------------------------- MODULE SimplifyRules ---------------------------
(* Transcription of patronus/src/expr/simplify.rs:123-743 over nested-record expressions.
   An expression is [op, w, k (sequence of sub-expressions), hi, lo, by, name, bits]; structural
   equality plays the role of hash-consed reference equality.  Rule(e) is one application of
   `simplify` to a node whose children are already simplified; Simp(e) is the fixed point that
   do_transform_expr computes (children first, re-simplify whatever a rule returns).          *)
EXTENDS BV, TLC
NONE == [op |-> "NONE"]
Mk(op, w, k, hi, lo, by, name, bits) == [op |-> op, w |-> w, k |-> k, hi |-> hi, lo |-> lo, by |-> by, name |-> name, bits |-> bits]
N0(op, w, k) == Mk(op, w, k, 0, 0, 0, "", <<>>)
Sym(nm, w)   == Mk("bvsym", w, <<>>, 0, 0, 0, nm, <<>>)
Lit(v)       == Mk("bvlit", Len(v), <<>>, 0, 0, 0, "", v)
IsLit(e)     == e.op = "bvlit"
TrueE == Lit(<<1>>)   FalseE == Lit(<<0>>)
\* ---- Context builder methods (context.rs:248-438), including their two normalisations
NotE(a)      == N0("not", a.w, <<a>>)
NegE(a)      == N0("neg", a.w, <<a>>)
AndE(a, b)   == N0("and", a.w, <<a, b>>)
OrE(a, b)    == N0("or", a.w, <<a, b>>)
XorE(a, b)   == N0("xor", a.w, <<a, b>>)
AddE(a, b)   == N0("add", a.w, <<a, b>>)
SubE(a, b)   == N0("sub", a.w, <<a, b>>)
MulE(a, b)   == N0("mul", a.w, <<a, b>>)
ShlE(a, b)   == N0("shl", a.w, <<a, b>>)
EqE(a, b)    == N0("eq", 1, <<a, b>>)
IteE(c, t, f) == N0("ite", t.w, <<c, t, f>>)
ConcatE(a, b) == N0("concat", a.w + b.w, <<a, b>>)
SliceE(e, hi, lo) == IF lo = 0 /\ hi + 1 = e.w THEN e ELSE Mk("slice", hi - lo + 1, <<e>>, hi, lo, 0, "", <<>>)
ZExtE(e, by) == IF by = 0 THEN e ELSE Mk("zext", e.w + by, <<e>>, 0, 0, by, "", <<>>)
SExtE(e, by) == IF by = 0 THEN e ELSE Mk("sext", e.w + by, <<e>>, 0, 0, by, "", <<>>)
ZeroE(w) == Lit(Zero(w))   OnesE(w) == Lit(Ones(w))
\* ---- helpers
IsZeroV(v) == v = Zero(Len(v))
IsOnesV(v) == v = Ones(Len(v))
\* value as a natural number, saturated at 2^20 (shift amounts are only compared with widths < 2^20)
ToN(v)     == IF \E i \in 21..Len(v) : v[i] = 1 THEN 2^20
              ELSE FoldLeft(LAMBDA acc, i : acc + v[i] * (2^(i-1)), 0, Idx(IF Len(v) < 20 THEN Len(v) ELSE 20))
OfNat(n, w) == [i \in 1..w |-> IF i <= 20 THEN ((n \div (2^(i-1))) % 2) ELSE 0]      \* n < 2^20 (widths)
IsPow2(v)  == \E j \in 1..Len(v) : v = [i \in 1..Len(v) |-> IF i = j THEN 1 ELSE 0]
Log2(v)    == (CHOOSE j \in 1..Len(v) : v[j] = 1) - 1
\* maximal runs of ones, as <<start, end>> (end exclusive, 0-based), lowest first  (baa bit_set_intervals)
Intervals(v) == LET st == FoldLeft(LAMBDA acc, i :
                              IF v[i] = 1 THEN (IF acc[2] = 0 THEN <<acc[1], i>> ELSE acc)
                              ELSE (IF acc[2] # 0 THEN <<Append(acc[1], <<acc[2] - 1, i - 1>>), 0>> ELSE acc),
                            << <<>>, 0 >>, Idx(Len(v)))
                IN IF st[2] # 0 THEN Append(st[1], <<st[2] - 1, Len(v)>>) ELSE st[1]
\* ---- the rules
RIte(c, t, f) ==
  IF t = f THEN t
  ELSE IF IsLit(c) THEN (IF c.bits = <<0>> THEN f ELSE t)
  ELSE IF t.w = 1 THEN
       (IF IsLit(t) /\ IsLit(f) THEN (IF t.bits = <<1>> THEN c ELSE NotE(c))
        ELSE IF IsLit(t) THEN (IF t.bits = <<1>> THEN OrE(c, f) ELSE AndE(NotE(c), f))
        ELSE IF IsLit(f) THEN (IF f.bits = <<1>> THEN OrE(NotE(c), t) ELSE AndE(c, t))
        ELSE NONE)
  ELSE NONE
REq(a, b) ==
  IF a = b THEN TrueE
  ELSE IF IsLit(a) /\ IsLit(b) THEN FalseE
  ELSE IF IsLit(a) /\ a.w = 1 THEN (IF a.bits = <<1>> THEN b ELSE NotE(b))
  ELSE IF IsLit(b) /\ b.w = 1 THEN (IF b.bits = <<1>> THEN a ELSE NotE(a))
  ELSE IF a.op = "concat" \/ b.op = "concat" THEN
       LET cc == IF a.op = "concat" THEN a ELSE b  other == IF a.op = "concat" THEN b ELSE a
           ca == cc.k[1]  cb == cc.k[2]  w == ca.w + cb.w IN
       AndE(EqE(ca, SliceE(other, w - 1, w - ca.w)), EqE(cb, SliceE(other, cb.w - 1, 0)))
  ELSE NONE
MaskPieces(expr, lit) ==          \* and(expr, mask) -> concat of zero pieces and slices, msb first
  LET ivs == Intervals(lit.bits)
      low2high == FoldLeft(LAMBDA acc, j :
                     LET iv == ivs[j]  vals == acc[1]  bit == acc[2]
                         v1 == IF iv[1] > bit THEN Append(vals, ZeroE(iv[1] - bit)) ELSE vals
                     IN << Append(v1, SliceE(expr, iv[2] - 1, iv[1])), iv[2] >>,
                   << <<>>, 0 >>, Idx(Len(ivs)))
      vals == IF low2high[2] < expr.w THEN Append(low2high[1], ZeroE(expr.w - low2high[2])) ELSE low2high[1]
      rev  == [i \in 1..Len(vals) |-> vals[Len(vals) + 1 - i]]
  IN FoldLeft(LAMBDA acc, i : ConcatE(acc, rev[i]), rev[1], [i \in 1..(Len(rev) - 1) |-> i + 1])
RAnd(a, b) ==
  IF a = b THEN a
  ELSE IF IsLit(a) /\ IsLit(b) THEN Lit(And(a.bits, b.bits))
  ELSE IF IsLit(a) \/ IsLit(b) THEN
       LET lit == IF IsLit(a) THEN a ELSE b  expr == IF IsLit(a) THEN b ELSE a IN
       IF IsZeroV(lit.bits) THEN lit
       ELSE IF IsOnesV(lit.bits) THEN expr
       ELSE IF expr.op = "concat" THEN
            LET x == expr.k[1]  y == expr.k[2] IN
            ConcatE(AndE(x, Lit(Extract(lit.bits, expr.w - 1, y.w))), AndE(y, Lit(Extract(lit.bits, y.w - 1, 0))))
       ELSE MaskPieces(expr, lit)
  ELSE IF a.op = "not" /\ a.k[1] = b THEN ZeroE(a.w)
  ELSE IF b.op = "not" /\ b.k[1] = a THEN ZeroE(b.w)
  ELSE IF a.op = "not" /\ b.op = "not" THEN NotE(OrE(a.k[1], b.k[1]))
  ELSE NONE
ROr(a, b) ==
  IF a = b THEN a
  ELSE IF IsLit(a) /\ IsLit(b) THEN Lit(Or(a.bits, b.bits))
  ELSE IF IsLit(a) \/ IsLit(b) THEN
       LET lit == IF IsLit(a) THEN a ELSE b  expr == IF IsLit(a) THEN b ELSE a IN
       IF IsZeroV(lit.bits) THEN expr ELSE IF IsOnesV(lit.bits) THEN lit ELSE NONE
  ELSE IF a.op = "not" /\ a.k[1] = b THEN OnesE(a.w)
  ELSE IF b.op = "not" /\ b.k[1] = a THEN OnesE(b.w)
  ELSE IF a.op = "not" /\ b.op = "not" THEN NotE(AndE(a.k[1], b.k[1]))
  ELSE NONE
RXor(a, b) ==
  IF a = b THEN ZeroE(a.w)
  ELSE IF IsLit(a) /\ IsLit(b) THEN Lit(Xor(a.bits, b.bits))
  ELSE IF IsLit(a) \/ IsLit(b) THEN
       LET lit == IF IsLit(a) THEN a ELSE b  expr == IF IsLit(a) THEN b ELSE a IN
       IF IsZeroV(lit.bits) THEN expr ELSE IF IsOnesV(lit.bits) THEN NotE(expr) ELSE NONE
  ELSE IF a.op = "not" /\ a.k[1] = b THEN OnesE(a.w)
  ELSE IF b.op = "not" /\ b.k[1] = a THEN OnesE(b.w)
  ELSE NONE
RUge(a, b) ==
  IF IsLit(a) /\ IsLit(b) THEN Lit(BoolBV(Uge(a.bits, b.bits)))
  ELSE IF IsLit(a) THEN (IF IsOnesV(a.bits) THEN TrueE ELSE NONE)
  ELSE IF IsLit(b) THEN (IF IsZeroV(b.bits) THEN TrueE ELSE IF IsOnesV(b.bits) THEN EqE(a, b) ELSE NONE)
  ELSE NONE
RNot(e)  == IF e.op = "not" THEN e.k[1] ELSE IF IsLit(e) THEN Lit(Not(e.bits)) ELSE NONE
RZExt(e, by) == IF by = 0 THEN e ELSE IF IsLit(e) THEN Lit(ZExt(e.bits, by)) ELSE ConcatE(ZeroE(by), e)
RSExt(e, by) == IF by = 0 THEN e ELSE IF IsLit(e) THEN Lit(SExt(e.bits, by))
                ELSE IF e.op = "sext" THEN SExtE(e.k[1], by + e.by) ELSE NONE
RConcat(a, b) ==
  IF a.op = "concat" THEN ConcatE(a.k[1], ConcatE(a.k[2], b))
  ELSE IF IsLit(a) /\ IsLit(b) THEN Lit(Concat(a.bits, b.bits))
  ELSE IF IsLit(a) /\ b.op = "concat" THEN (IF IsLit(b.k[1]) THEN ConcatE(Lit(Concat(a.bits, b.k[1].bits)), b.k[2]) ELSE NONE)
  ELSE IF a.op = "slice" /\ b.op = "slice" THEN (IF a.k[1] = b.k[1] /\ a.lo = b.hi + 1 THEN SliceE(a.k[1], a.hi, b.lo) ELSE NONE)
  ELSE NONE
RSlice(e, hi, lo) ==
  CASE e.op = "slice"  -> SliceE(e.k[1], hi + e.lo, lo + e.lo)
    [] e.op = "bvlit"  -> Lit(Extract(e.bits, hi, lo))
    [] e.op = "concat" -> LET a == e.k[1]  b == e.k[2] IN
                          IF hi < b.w THEN SliceE(b, hi, lo)
                          ELSE IF lo >= b.w THEN SliceE(a, hi - b.w, lo - b.w)
                          ELSE ConcatE(SliceE(a, hi - b.w, 0), SliceE(b, b.w - 1, lo))
    [] e.op = "sext"   -> LET x == e.k[1] IN
                          IF lo >= x.w THEN SExtE(SliceE(x, x.w - 1, x.w - 1), hi - lo)
                          ELSE IF hi < x.w THEN SliceE(x, hi, lo)
                          ELSE SExtE(SliceE(x, x.w - 1, lo), hi - x.w + 1)
    [] e.op = "ite"    -> IteE(e.k[1], SliceE(e.k[2], hi, lo), SliceE(e.k[3], hi, lo))
    [] e.op = "not"    -> NotE(SliceE(e.k[1], hi, lo))
    [] e.op = "neg" /\ lo = 0 -> NegE(SliceE(e.k[1], hi, lo))
    [] e.op = "and"    -> AndE(SliceE(e.k[1], hi, lo), SliceE(e.k[2], hi, lo))
    [] e.op = "or"     -> OrE(SliceE(e.k[1], hi, lo), SliceE(e.k[2], hi, lo))
    [] e.op = "xor"    -> XorE(SliceE(e.k[1], hi, lo), SliceE(e.k[2], hi, lo))
    [] e.op = "add" /\ lo = 0 -> AddE(SliceE(e.k[1], hi, lo), SliceE(e.k[2], hi, lo))
    [] e.op = "sub" /\ lo = 0 -> SubE(SliceE(e.k[1], hi, lo), SliceE(e.k[2], hi, lo))
    [] e.op = "mul" /\ lo = 0 -> MulE(SliceE(e.k[1], hi, lo), SliceE(e.k[2], hi, lo))
    [] OTHER -> NONE
\* shifts by a literal amount; `by` is taken as a natural number (exact for the small widths of the model;
\* the code truncates it to 32 bits first, which is the C01 finding and deliberately not copied here)
RShl(a, b, w) == IF IsLit(a) /\ IsLit(b) THEN Lit(Shl(a.bits, b.bits))
                 ELSE IF IsLit(b) THEN LET by == ToN(b.bits) IN
                      IF by >= w THEN ZeroE(w) ELSE IF by = 0 THEN a ELSE ConcatE(SliceE(a, w - 1 - by, 0), ZeroE(by))
                 ELSE NONE
RLshr(a, b, w) == IF IsLit(a) /\ IsLit(b) THEN Lit(Lshr(a.bits, b.bits))
                  ELSE IF IsLit(b) THEN LET by == ToN(b.bits) IN
                       IF by >= w THEN ZeroE(w) ELSE IF by = 0 THEN a ELSE ZExtE(SliceE(a, w - 1, by), by)
                  ELSE NONE
RAshr(a, b, w) == IF IsLit(a) /\ IsLit(b) THEN Lit(Ashr(a.bits, b.bits))
                  ELSE IF IsLit(b) THEN LET by == ToN(b.bits) IN
                       IF by >= w THEN SExtE(SliceE(a, w - 1, w - 1), w - 1) ELSE IF by = 0 THEN a ELSE SExtE(SliceE(a, w - 1, by), by)
                  ELSE NONE
RAdd(a, b) == IF a.w = 1 THEN XorE(a, b)
              ELSE IF IsLit(a) /\ IsLit(b) THEN Lit(Add(a.bits, b.bits))
              ELSE IF IsLit(a) THEN (IF IsZeroV(a.bits) THEN b ELSE NONE)
              ELSE IF IsLit(b) THEN (IF IsZeroV(b.bits) THEN a ELSE NONE)
              ELSE NONE
RMul(a, b) == IF a.w = 1 THEN AndE(a, b)
              ELSE IF IsLit(a) /\ IsLit(b) THEN Lit(Mul(a.bits, b.bits))
              ELSE IF IsLit(a) \/ IsLit(b) THEN
                   LET lit == IF IsLit(a) THEN a ELSE b  expr == IF IsLit(a) THEN b ELSE a IN
                   IF IsZeroV(lit.bits) THEN lit
                   ELSE IF lit.bits = One(lit.w) THEN expr
                   ELSE IF IsPow2(lit.bits) THEN ShlE(expr, Lit(OfNat(Log2(lit.bits), lit.w)))
                   ELSE NONE
              ELSE NONE
Rule(e) ==
  CASE e.op = "not"     -> RNot(e.k[1])
    [] e.op = "zext"    -> RZExt(e.k[1], e.by)
    [] e.op = "sext"    -> RSExt(e.k[1], e.by)
    [] e.op = "slice"   -> RSlice(e.k[1], e.hi, e.lo)
    [] e.op = "ite"     -> RIte(e.k[1], e.k[2], e.k[3])
    [] e.op = "concat"  -> RConcat(e.k[1], e.k[2])
    [] e.op = "eq"      -> REq(e.k[1], e.k[2])
    [] e.op = "and"     -> RAnd(e.k[1], e.k[2])
    [] e.op = "or"      -> ROr(e.k[1], e.k[2])
    [] e.op = "xor"     -> RXor(e.k[1], e.k[2])
    [] e.op = "implies" -> OrE(NotE(e.k[1]), e.k[2])
    [] e.op = "uge"     -> RUge(e.k[1], e.k[2])
    [] e.op = "add"     -> RAdd(e.k[1], e.k[2])
    [] e.op = "mul"     -> RMul(e.k[1], e.k[2])
    [] e.op = "shl"     -> RShl(e.k[1], e.k[2], e.w)
    [] e.op = "lshr"    -> RLshr(e.k[1], e.k[2], e.w)
    [] e.op = "ashr"    -> RAshr(e.k[1], e.k[2], e.w)
    [] OTHER -> NONE
\* ---- the fixed point computed by the driver (children first; a rule's result is simplified again)
RECURSIVE Simp(_, _)
Simp(e, fuel) ==
  IF fuel = 0 THEN [op |-> "DIVERGE"]
  ELSE LET ks == [i \in 1..Len(e.k) |-> Simp(e.k[i], fuel - 1)]
           e2 == [e EXCEPT !.k = ks]                       \* update_expr_children: raw rebuild, no builder normalisation
           r  == IF \E i \in 1..Len(ks) : ks[i].op = "DIVERGE" THEN [op |-> "DIVERGE"] ELSE Rule(e2)
       IN IF r.op = "DIVERGE" THEN r ELSE IF r = NONE THEN e2 ELSE Simp(r, fuel - 1)
\* ---- flatten to a node table so that Expr!EvalAll can evaluate it
RECURSIVE Flat(_)
Flat(e) == LET parts == [i \in 1..Len(e.k) |-> Flat(e.k[i])]
               offs  == [i \in 1..Len(e.k) |-> FoldLeft(LAMBDA acc, j : acc + Len(parts[j]), 0, [j \in 1..(i-1) |-> j])]
               body  == FoldLeft(LAMBDA acc, i : acc \o [j \in 1..Len(parts[i]) |->
                                     [parts[i][j] EXCEPT !.a = [x \in 1..Len(@) |-> @[x] + offs[i]]]], <<>>, Idx(Len(e.k)))
           IN Append(body, [op |-> e.op, w |-> e.w, a |-> [i \in 1..Len(e.k) |-> offs[i] + Len(parts[i])],
                            hi |-> e.hi, lo |-> e.lo, by |-> e.by, name |-> e.name, bits |-> e.bits,
                            iw |-> 0, dw |-> 0, ow |-> IF e.op \in {"sgt", "sge"} THEN e.k[1].w ELSE 0])
=============================================================================

