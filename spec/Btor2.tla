------------------------------- MODULE Btor2 -------------------------------
(* Meaning of btor2 operator lines, written from the BTOR2 format description (Niemetz et al., CAV'18),
   independent of patronus' parser.  Operands are bit-vector values; a negated operand reference
   (-n) denotes the bitwise complement of line n. *)
EXTENDS Expr, Integers
Unary   == {"not", "neg", "redand", "redor", "redxor", "slice", "uext", "sext"}
CmpOps     == {"eq", "neq", "sgt", "ugt", "sgte", "ugte", "slt", "ult", "slte", "ulte"}
BoolBin == {"iff", "implies"}
Binary  == CmpOps \cup BoolBin \cup {"and", "nand", "nor", "or", "xnor", "xor", "sll", "sra", "srl", "add", "mul",
            "sdiv", "udiv", "smod", "srem", "urem", "sub", "concat"}
Ternary == {"ite"}
Parity(a) == FoldLeft(LAMBDA p, i : (p + a[i]) % 2, 0, Idx(Len(a)))
OpVal(op, a, b, c, at) ==        \* at = <<upper, lower>> for slice, <<by>> for extensions
  CASE op = "not"    -> Not(a)
    [] op = "neg"    -> Neg(a)
    [] op = "redand" -> BoolBV(a = Ones(Len(a)))
    [] op = "redor"  -> BoolBV(a # Zero(Len(a)))
    [] op = "redxor" -> <<Parity(a)>>
    [] op = "slice"  -> Extract(a, at[1], at[2])
    [] op = "uext"   -> ZExt(a, at[1])
    [] op = "sext"   -> SExt(a, at[1])
    [] op = "iff"    -> BoolBV(a = b)
    [] op = "implies" -> BoolBV(a = <<0>> \/ b = <<1>>)
    [] op = "eq"     -> BoolBV(a = b)
    [] op = "neq"    -> BoolBV(a # b)
    [] op = "sgt"    -> BoolBV(Sgt(a, b))
    [] op = "ugt"    -> BoolBV(Ugt(a, b))
    [] op = "sgte"   -> BoolBV(Sge(a, b))
    [] op = "ugte"   -> BoolBV(Uge(a, b))
    [] op = "slt"    -> BoolBV(Sgt(b, a))
    [] op = "ult"    -> BoolBV(Ult(a, b))
    [] op = "slte"   -> BoolBV(Sge(b, a))
    [] op = "ulte"   -> BoolBV(Ule(a, b))
    [] op = "and"    -> And(a, b)
    [] op = "nand"   -> Not(And(a, b))
    [] op = "nor"    -> Not(Or(a, b))
    [] op = "or"     -> Or(a, b)
    [] op = "xnor"   -> Not(Xor(a, b))
    [] op = "xor"    -> Xor(a, b)
    [] op = "sll"    -> Shl(a, b)
    [] op = "sra"    -> Ashr(a, b)
    [] op = "srl"    -> Lshr(a, b)
    [] op = "add"    -> Add(a, b)
    [] op = "mul"    -> Mul(a, b)
    [] op = "sdiv"   -> Sdiv(a, b)
    [] op = "udiv"   -> Udiv(a, b)
    [] op = "smod"   -> Smod(a, b)
    [] op = "srem"   -> Srem(a, b)
    [] op = "urem"   -> Urem(a, b)
    [] op = "sub"    -> Sub(a, b)
    [] op = "concat" -> Concat(a, b)        \* first operand = high bits
    [] op = "ite"    -> IF a = <<1>> THEN b ELSE c
ResWidth(op, w, at) ==
  CASE op \in CmpOps \cup BoolBin \cup {"redand", "redor", "redxor"} -> 1
    [] op = "slice"  -> at[1] - at[2] + 1
    [] op \in {"uext", "sext"} -> w + at[1]
    [] op = "concat" -> 2 * w
    [] OTHER -> w
MaybeNot(v, n) == IF n = 1 THEN Not(v) ELSE v

(* ------------------------------------------------------------------------------------------------
   Whole files.  A file is a sequence of line records (already tokenised by the harness' own renderer):
     [id, tag, op, sort, a, at, val, name, sw, si, se]
   tag \in sort_bv (sw = width) | sort_arr (si, se = ids of index / element sort lines) | input | state |
           const (val = bits, LSB first) | op (op = operator, a = signed operand ids, at = attributes) |
           init | next (a = <<state id, value id>>) | output | bad | constraint (a = <<id>>).
   Ids increase; a line may only refer to earlier lines. *)
LineIdx(lines, id) == CHOOSE k \in 1..Len(lines) : lines[k].id = id
HasLine(lines, id) == \E k \in 1..Len(lines) : lines[k].id = id
AbsI(n) == IF n < 0 THEN 0 - n ELSE n
NodeTags == {"input", "state", "const", "op"}
\* type denoted by a sort line id (BAD if it is not a sort line / nested arrays)
SortType(lines, sid) ==
  IF ~HasLine(lines, sid) THEN BAD
  ELSE LET ln == lines[LineIdx(lines, sid)] IN
       IF ln.tag = "sort_bv" THEN (IF ln.sw >= 1 THEN BVT(ln.sw) ELSE BAD)
       ELSE IF ln.tag = "sort_arr" /\ HasLine(lines, ln.si) /\ HasLine(lines, ln.se)
               /\ lines[LineIdx(lines, ln.si)].tag = "sort_bv" /\ lines[LineIdx(lines, ln.se)].tag = "sort_bv"
            THEN ArrT(lines[LineIdx(lines, ln.si)].sw, lines[LineIdx(lines, ln.se)].sw)
       ELSE BAD
\* declared type of a node line
NodeType(lines, id) == IF HasLine(lines, AbsI(id)) /\ lines[LineIdx(lines, AbsI(id))].tag \in NodeTags
                       THEN SortType(lines, lines[LineIdx(lines, AbsI(id))].sort) ELSE BAD
\* sort rule of one operator line: the declared type t must be what the operand types give
OpTypeOK(op, t, ts, at) ==
  LET t1 == ts[1]  t2 == ts[2]  t3 == ts[3] IN
  CASE op \in {"not", "neg"} -> IsBV(t1) /\ t = t1
    [] op \in {"redand", "redor", "redxor"} -> IsBV(t1) /\ t = BVT(1)
    [] op = "slice" -> IsBV(t1) /\ at[2] <= at[1] /\ at[1] < t1.w /\ t = BVT(at[1] - at[2] + 1)
    [] op \in {"uext", "sext"} -> IsBV(t1) /\ t = BVT(t1.w + at[1])
    [] op \in {"iff", "implies"} -> t1 = BVT(1) /\ t2 = BVT(1) /\ t = BVT(1)
    [] op \in {"eq", "neq"} -> t1 # BAD /\ t1 = t2 /\ t = BVT(1)
    [] op \in CmpOps \ {"eq", "neq"} -> IsBV(t1) /\ t1 = t2 /\ t = BVT(1)
    [] op = "concat" -> IsBV(t1) /\ IsBV(t2) /\ t = BVT(t1.w + t2.w)
    [] op \in Binary \ (CmpOps \cup BoolBin \cup {"concat"}) -> IsBV(t1) /\ t1 = t2 /\ t = t1
    [] op = "ite" -> t1 = BVT(1) /\ t2 # BAD /\ t2 = t3 /\ t = t2
    [] op = "read" -> t1.k = "arr" /\ t2 = BVT(t1.iw) /\ t = BVT(t1.dw)
    [] op = "write" -> t1.k = "arr" /\ t2 = BVT(t1.iw) /\ t3 = BVT(t1.dw) /\ t = t1
    [] OTHER -> FALSE
OpArityB(op) == IF op \in Unary THEN 1 ELSE IF op \in {"ite", "write"} THEN 3 ELSE 2
Pad3(f(_), n) == [j \in 1..3 |-> IF j <= n THEN f(j) ELSE BAD]
LineOK(lines, k) ==
  LET ln == lines[k]
      earlier(id) == HasLine(lines, AbsI(id)) /\ LineIdx(lines, AbsI(id)) < k
      \* a negated reference is only meaningful for bit-vector nodes
      refOK(id) == earlier(id) /\ NodeType(lines, id) # BAD /\ (id < 0 => IsBV(NodeType(lines, id)))
  IN CASE ln.tag = "sort_bv" -> ln.sw >= 1
       [] ln.tag = "sort_arr" -> SortType(lines, ln.id) # BAD /\ LineIdx(lines, ln.si) < k /\ LineIdx(lines, ln.se) < k
       [] ln.tag \in {"input", "state"} -> SortType(lines, ln.sort) # BAD /\ LineIdx(lines, ln.sort) < k
       [] ln.tag = "const" -> IsBV(SortType(lines, ln.sort)) /\ LineIdx(lines, ln.sort) < k /\ Len(ln.val) = SortType(lines, ln.sort).w
       [] ln.tag = "op" -> /\ Len(ln.a) = OpArityB(ln.op) /\ \A j \in 1..Len(ln.a) : refOK(ln.a[j])
                           /\ SortType(lines, ln.sort) # BAD /\ LineIdx(lines, ln.sort) < k
                           /\ OpTypeOK(ln.op, SortType(lines, ln.sort), Pad3(LAMBDA j : NodeType(lines, ln.a[j]), Len(ln.a)), ln.at)
       [] ln.tag \in {"init", "next"} ->
            /\ Len(ln.a) = 2 /\ ln.a[1] > 0 /\ earlier(ln.a[1]) /\ lines[LineIdx(lines, ln.a[1])].tag = "state" /\ refOK(ln.a[2])
            /\ LET ts == NodeType(lines, ln.a[1])  tv == NodeType(lines, ln.a[2]) IN
               /\ SortType(lines, ln.sort) = ts
               /\ (tv = ts \/ (ln.tag = "init" /\ ts.k = "arr" /\ tv = BVT(ts.dw)))
       [] ln.tag \in {"bad", "constraint"} -> Len(ln.a) = 1 /\ refOK(ln.a[1]) /\ NodeType(lines, ln.a[1]) = BVT(1)
       [] ln.tag = "output" -> Len(ln.a) = 1 /\ refOK(ln.a[1])
       [] OTHER -> FALSE
FileOK(lines) == /\ \A k \in 1..Len(lines) : LineOK(lines, k)
                 /\ \A k, j \in 1..Len(lines) : k < j => lines[k].id < lines[j].id
\* value of every node line under a valuation env (name -> value) of inputs and states
FileVals(lines, env) ==
  FoldLeft(LAMBDA vals, k :
     LET ln == lines[k]
         ref(id) == LET v == vals[LineIdx(lines, AbsI(id))] IN IF id < 0 THEN Not(v) ELSE v
         v1 == ref(ln.a[1])  v2 == ref(ln.a[2])  v3 == ref(ln.a[3])
         val == IF ln.tag \in {"input", "state"} THEN env[ln.name]
                ELSE IF ln.tag = "const" THEN ln.val
                ELSE IF ln.tag = "op" THEN
                       (IF ln.op = "read" THEN Select(v1, v2)
                        ELSE IF ln.op = "write" THEN Store(v1, v2, v3)
                        ELSE IF ln.op \in {"eq", "neq"} /\ NodeType(lines, ln.a[1]).k = "arr"
                             THEN BoolBV(ArrEq(v1, v2) = (ln.op = "eq"))
                        ELSE OpVal(ln.op, v1, IF Len(ln.a) >= 2 THEN v2 ELSE <<>>, IF Len(ln.a) >= 3 THEN v3 ELSE <<>>, ln.at))
                ELSE <<>>
     IN Append(vals, val),
   <<>>, Idx(Len(lines)))
ValOfRef(lines, vals, id) == LET v == vals[LineIdx(lines, AbsI(id))] IN IF id < 0 THEN Not(v) ELSE v
=============================================================================

