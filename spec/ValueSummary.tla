---- MODULE ValueSummary ----
(* Design-level model of patronus-dse ValueSummary operations (value_summary.rs:109-347) other than
   coalesce (modelled separately).  Guards are sets of valuations (a BDD is canonical, so guard
   equality = set equality); a summary is a sequence of <<guard, value>>.  Data values are 0..1 with
   xor as the binary operation; Boolean values are truth sets (what expr_to_guard turns them into). *)
EXTENDS Naturals, Sequences, FiniteSets, SequencesExt, TLC
CONSTANTS NV, MaxDepth
Valu == 1..NV
All  == Valu
Partition(s) == /\ \A i, j \in 1..Len(s) : i # j => s[i][1] \cap s[j][1] = {}
                /\ UNION { s[i][1] : i \in 1..Len(s) } = Valu
Den(s, v) == s[CHOOSE i \in 1..Len(s) : v \in s[i][1]][2]          \* defined when Partition(s)
New(val) == << <<All, val>> >>
Guards(s) == { s[i][1] : i \in 1..Len(s) }
First(s, g) == s[CHOOSE i \in 1..Len(s) : s[i][1] = g /\ \A j \in 1..(i-1) : s[j][1] # g]
Sorted(set) == SetToSortSeq(set, LAMBDA x, y : TRUE)                \* some fixed order (the code sorts BDD ids)
\* apply_bin_op: common-guard fast path, then cross product with is_false filter
ApplyBinOp(op(_, _), a, b) ==
  LET common == Guards(a) \cap Guards(b)
      fast   == [i \in 1..Cardinality(common) |-> LET g == Sorted(common)[i] IN << g, op(First(a, g)[2], First(b, g)[2]) >>]
      a2     == SelectSeq(a, LAMBDA e : e[1] \notin common)
      b2     == SelectSeq(b, LAMBDA e : e[1] \notin common)
      cross  == FoldLeft(LAMBDA acc, i : acc \o SelectSeq([j \in 1..Len(b2) |-> << a2[i][1] \cap b2[j][1], op(a2[i][2], b2[j][2]) >>],
                                                         LAMBDA e : e[1] # {}),
                         <<>>, [i \in 1..Len(a2) |-> i])
  IN fast \o cross
\* to_guard of a Boolean summary (no special values in this model)
ToGuard(c) == UNION { c[i][1] \cap c[i][2] : i \in 1..Len(c) }
IsTrue(c)  == Len(c) = 1 /\ c[1][2] = All          \* "trivially true": single entry whose value is the literal true
IsFalse(c) == Len(c) = 1 /\ c[1][2] = {}
ApplyIte(c, t, f) ==
  IF IsTrue(c) THEN t ELSE IF IsFalse(c) THEN f
  ELSE LET tc == ToGuard(c) fc == All \ tc IN
       IF tc = All THEN t ELSE IF fc = All THEN f
       ELSE [i \in 1..Len(t) |-> << t[i][1] \cap tc, t[i][2] >>] \o [i \in 1..Len(f) |-> << f[i][1] \cap fc, f[i][2] >>]
ImportIntoGuard(c) ==
  LET g == ToGuard(c) IN
  IF g = All THEN New(All) ELSE IF g = {} THEN New({})
  ELSE << << All \ g, {} >>, << g, All >> >>
Xor(x, y) == (x + y) % 2
BoolIte(cv, tv, fv) == (cv \cap tv) \cup ((All \ cv) \cap fv)     \* pointwise ite on truth sets
\* ---- exploration: three registers with their denotations
VARIABLES d1, d2, c, depth
Terminals == { { v \in Valu : ((v - 1) \div 2) % 2 = 1 }, { v \in Valu : (v - 1) % 2 = 1 } }    \* two Boolean variables over 4 valuations
Init == /\ d1 \in { [s |-> New(x), den |-> [v \in Valu |-> x]] : x \in 0..1 }
        /\ d2 \in { [s |-> New(x), den |-> [v \in Valu |-> x]] : x \in 0..1 }
        /\ c  \in { [s |-> New(t), den |-> [v \in Valu |-> v \in t]] : t \in Terminals \cup {All, {}} }
        /\ depth = 0
BaseC == { [s |-> New(t), den |-> [v \in Valu |-> v \in t]] : t \in Terminals }
Step == /\ depth < MaxDepth /\ depth' = depth + 1
        /\ \/ /\ d1' = [s |-> ApplyIte(c.s, d1.s, d2.s), den |-> [v \in Valu |-> IF c.den[v] THEN d1.den[v] ELSE d2.den[v]]] /\ UNCHANGED <<d2, c>>
           \/ /\ d2' = [s |-> ApplyIte(c.s, d2.s, d1.s), den |-> [v \in Valu |-> IF c.den[v] THEN d2.den[v] ELSE d1.den[v]]] /\ UNCHANGED <<d1, c>>
           \/ /\ d1' = [s |-> ApplyBinOp(Xor, d1.s, d2.s), den |-> [v \in Valu |-> Xor(d1.den[v], d2.den[v])]] /\ UNCHANGED <<d2, c>>
           \/ \E x, y \in BaseC :
                /\ c' = [s |-> ApplyIte(c.s, x.s, y.s), den |-> [v \in Valu |-> IF c.den[v] THEN x.den[v] ELSE y.den[v]]] /\ UNCHANGED <<d1, d2>>
           \/ \E x \in BaseC :
                /\ c' = [s |-> ApplyBinOp(LAMBDA p, q : (p \cup q) \ (p \cap q), c.s, x.s), den |-> [v \in Valu |-> c.den[v] # x.den[v]]] /\ UNCHANGED <<d1, d2>>
           \/ /\ c' = [s |-> ImportIntoGuard(c.s), den |-> c.den] /\ UNCHANGED <<d1, d2>>
Next == Step \/ (depth = MaxDepth /\ UNCHANGED <<d1, d2, c, depth>>)
DataOK(r) == Partition(r.s) /\ \A v \in Valu : Den(r.s, v) = r.den[v]
BoolOK(r) == Partition(r.s) /\ \A v \in Valu : (v \in Den(r.s, v)) = r.den[v]
Ok == DataOK(d1) /\ DataOK(d2) /\ BoolOK(c)
====
