------------------------------ MODULE UseCount ------------------------------
(* Beyond the listed properties: the meaning of expr::analysis::count_expr_uses, the basis of the encoder's
   use classification (init / next / other).  For a node table and a set of roots:
     uses(i) = (1 if i is a root) + the number of operand occurrences of i in nodes reachable from the roots
   (a node's operands are counted once, when the node is first reached; the real counter saturates at 2^16-1). *)
EXTENDS Expr, Json, IOUtils
Rec == ndJsonDeserialize(IOEnv.TRACE)
VARIABLE l
Init == l = 1
Next == l <= Len(Rec) /\ l' = l + 1
RECURSIVE Reach(_, _)
Reach(nodes, set) == LET n2 == set \cup UNION { { nodes[i].a[j] : j \in 1..Len(nodes[i].a) } : i \in set } IN IF n2 = set THEN set ELSE Reach(nodes, n2)
Occ(nodes, p, i) == Cardinality({ j \in 1..Len(nodes[p].a) : nodes[p].a[j] = i })
Uses(nodes, roots, i) ==
  LET R == Reach(nodes, roots) IN
  (IF i \in roots THEN 1 ELSE 0) + FoldLeft(LAMBDA acc, p : IF p \in R THEN acc + Occ(nodes, p, i) ELSE acc, 0, Idx(Len(nodes)))
Why(r) == LET roots == { r.roots[j] : j \in 1..Len(r.roots) } IN
          IF \E i \in Reach(r.nodes, roots) : r.counts[i] # Uses(r.nodes, roots, i) THEN "use count differs from its definition" ELSE "ok"
Inv == l <= Len(Rec) => LET w == Why(Rec[l]) IN
         IF w = "ok" THEN TRUE ELSE PrintT(<<"PV", ToJson([k |-> "reject", l |-> l, id |-> Rec[l].id, why |-> w])>>)
=============================================================================
