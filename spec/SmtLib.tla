------------------------------ MODULE SmtLib ------------------------------
(* Strict SMT-LIB 2 sorting and evaluation of terms given as tagged node tables.
   Sorts are flat records [k, w, ik, iw, dk, dw]; values are bit sequences (Bool = <<0>>/<<1>>) or
   array records as in Expr.tla. *)
EXTENDS Expr
NoneS        == [k |-> "none", w |-> 0, ik |-> "", iw |-> 0, dk |-> "", dw |-> 0]
BoolS        == [NoneS EXCEPT !.k = "bool"]
BVS(w)       == [NoneS EXCEPT !.k = "bv", !.w = w]
ElemS(k, w)  == IF k = "bool" THEN BoolS ELSE BVS(w)
IdxS(s)      == ElemS(s.ik, s.iw)
DatS(s)      == ElemS(s.dk, s.dw)
ErrS         == [NoneS EXCEPT !.k = "err"]
IsBVS(s)     == s.k = "bv"
WidthOf(s)   == IF s.k = "bool" THEN 1 ELSE s.w      \* value-level width

BoolOps      == {"not", "and", "or", "xor", "=>"}
BVUn         == {"bvnot", "bvneg"}
BVBin        == {"bvand", "bvor", "bvxor", "bvadd", "bvsub", "bvmul", "bvudiv", "bvurem", "bvsdiv",
                 "bvsrem", "bvsmod", "bvshl", "bvlshr", "bvashr"}
BVCmp        == {"bvult", "bvule", "bvugt", "bvuge", "bvslt", "bvsle", "bvsgt", "bvsge"}

AllSame(ss)  == \A i \in 1..Len(ss) : ss[i] = ss[1]
SortNode(n, st, decls) ==
  LET as == [j \in 1..Len(n.a) |-> st[n.a[j]]]  na == Len(n.a) IN
  CASE n.k = "bool" -> BoolS
    [] n.k = "lit"  -> IF Len(n.bits) >= 1 THEN BVS(Len(n.bits)) ELSE ErrS
    [] n.k = "id"   -> IF n.name \in DOMAIN decls THEN decls[n.name] ELSE ErrS
    [] n.k = "app" /\ (\E j \in 1..na : as[j].k = "err") -> ErrS
    [] n.k = "app" /\ n.f = "not" -> IF na = 1 /\ as[1] = BoolS THEN BoolS ELSE ErrS
    [] n.k = "app" /\ n.f \in {"and", "or", "xor", "=>"} ->
          IF na >= 2 /\ \A j \in 1..na : as[j] = BoolS THEN BoolS ELSE ErrS
    [] n.k = "app" /\ n.f \in {"=", "distinct"} -> IF na >= 2 /\ AllSame(as) THEN BoolS ELSE ErrS
    [] n.k = "app" /\ n.f = "ite" -> IF na = 3 /\ as[1] = BoolS /\ as[2] = as[3] THEN as[2] ELSE ErrS
    [] n.k = "app" /\ n.f \in BVUn -> IF na = 1 /\ IsBVS(as[1]) THEN as[1] ELSE ErrS
    [] n.k = "app" /\ n.f \in BVBin -> IF na >= 2 /\ IsBVS(as[1]) /\ AllSame(as) /\ (na = 2 \/ n.f \in {"bvand","bvor","bvxor","bvadd","bvmul"}) THEN as[1] ELSE ErrS
    [] n.k = "app" /\ n.f \in BVCmp -> IF na = 2 /\ IsBVS(as[1]) /\ as[1] = as[2] THEN BoolS ELSE ErrS
    [] n.k = "app" /\ n.f = "concat" -> IF na = 2 /\ IsBVS(as[1]) /\ IsBVS(as[2]) THEN BVS(as[1].w + as[2].w) ELSE ErrS
    [] n.k = "app" /\ n.f = "extract" ->
          IF na = 1 /\ Len(n.ix) = 2 /\ IsBVS(as[1]) /\ n.ix[2] <= n.ix[1] /\ n.ix[1] < as[1].w THEN BVS(n.ix[1] - n.ix[2] + 1) ELSE ErrS
    [] n.k = "app" /\ n.f \in {"zero_extend", "sign_extend"} ->
          IF na = 1 /\ Len(n.ix) = 1 /\ IsBVS(as[1]) THEN BVS(as[1].w + n.ix[1]) ELSE ErrS
    [] n.k = "app" /\ n.f = "select" -> IF na = 2 /\ as[1].k = "arr" /\ as[2] = IdxS(as[1]) THEN DatS(as[1]) ELSE ErrS
    [] n.k = "app" /\ n.f = "store"  -> IF na = 3 /\ as[1].k = "arr" /\ as[2] = IdxS(as[1]) /\ as[3] = DatS(as[1]) THEN as[1] ELSE ErrS
    [] n.k = "app" /\ n.f = "asconst" -> IF na = 1 /\ n.sort.k = "arr" /\ as[1] = DatS(n.sort) THEN n.sort ELSE ErrS
    [] OTHER -> ErrS
SortsAll(nodes, decls) ==
  FoldLeft(LAMBDA st, i : Append(st, SortNode(nodes[i], st, decls)), <<>>, Idx(Len(nodes)))

Fold2(op(_,_), xs) == FoldLeft(op, xs[1], SubSeq(xs, 2, Len(xs)))
EvalS(n, v, env, st) ==
  LET xs == [j \in 1..Len(n.a) |-> v[n.a[j]]] IN
  CASE n.k = "bool" -> <<n.v>>
    [] n.k = "lit"  -> n.bits
    [] n.k = "id"   -> env[n.name]
    [] n.f = "not"  -> Not(xs[1])
    [] n.f \in {"and", "bvand"} -> Fold2(And, xs)
    [] n.f \in {"or", "bvor"}   -> Fold2(Or, xs)
    [] n.f \in {"xor", "bvxor"} -> Fold2(Xor, xs)
    [] n.f = "=>"   -> FoldLeft(LAMBDA acc, j : Or(Not(xs[Len(xs) - j]), acc), xs[Len(xs)], Idx(Len(xs) - 1))   \* right assoc
    [] n.f = "="    -> BoolBV(\A j \in 1..(Len(xs)-1) : IF st[n.a[1]].k = "arr" THEN ArrEq(xs[j], xs[j+1]) ELSE xs[j] = xs[j+1])
    [] n.f = "distinct" -> BoolBV(\A i, j \in 1..Len(xs) : i < j => xs[i] # xs[j])
    [] n.f = "ite"  -> IF xs[1] = <<1>> THEN xs[2] ELSE xs[3]
    [] n.f = "bvnot" -> Not(xs[1])
    [] n.f = "bvneg" -> Neg(xs[1])
    [] n.f = "bvadd" -> Fold2(Add, xs)
    [] n.f = "bvmul" -> Fold2(Mul, xs)
    [] n.f = "bvsub" -> Sub(xs[1], xs[2])
    [] n.f = "bvudiv" -> Udiv(xs[1], xs[2])
    [] n.f = "bvurem" -> Urem(xs[1], xs[2])
    [] n.f = "bvsdiv" -> Sdiv(xs[1], xs[2])
    [] n.f = "bvsrem" -> Srem(xs[1], xs[2])
    [] n.f = "bvsmod" -> Smod(xs[1], xs[2])
    [] n.f = "bvshl"  -> Shl(xs[1], xs[2])
    [] n.f = "bvlshr" -> Lshr(xs[1], xs[2])
    [] n.f = "bvashr" -> Ashr(xs[1], xs[2])
    [] n.f = "bvult" -> BoolBV(Ult(xs[1], xs[2]))
    [] n.f = "bvule" -> BoolBV(Ule(xs[1], xs[2]))
    [] n.f = "bvugt" -> BoolBV(Ugt(xs[1], xs[2]))
    [] n.f = "bvuge" -> BoolBV(Uge(xs[1], xs[2]))
    [] n.f = "bvslt" -> BoolBV(Sgt(xs[2], xs[1]))
    [] n.f = "bvsle" -> BoolBV(Sge(xs[2], xs[1]))
    [] n.f = "bvsgt" -> BoolBV(Sgt(xs[1], xs[2]))
    [] n.f = "bvsge" -> BoolBV(Sge(xs[1], xs[2]))
    [] n.f = "concat" -> Concat(xs[1], xs[2])
    [] n.f = "extract" -> Extract(xs[1], n.ix[1], n.ix[2])
    [] n.f = "zero_extend" -> ZExt(xs[1], n.ix[1])
    [] n.f = "sign_extend" -> SExt(xs[1], n.ix[1])
    [] n.f = "select" -> Select(xs[1], xs[2])
    [] n.f = "store"  -> Store(xs[1], xs[2], xs[3])
    [] n.f = "asconst" -> ArrConst(IF n.sort.ik = "bool" THEN 1 ELSE n.sort.iw, xs[1])
SmtEvalAll(nodes, env, st) ==      \* st = SortsAll(nodes, decls): "=" on arrays is extensional
  FoldLeft(LAMBDA v, i : Append(v, EvalS(nodes[i], v, env, st)), <<>>, Idx(Len(nodes)))

\* <simple_symbol>: non-empty, no leading digit, letters digits and ~!@$%^&*_-+=<>.?/
SimpleChar(c) == \/ c \in 48..57 \/ c \in 65..90 \/ c \in 97..122
                 \/ c \in {126, 33, 64, 36, 37, 94, 38, 42, 95, 45, 43, 61, 60, 62, 46, 63, 47}
IsSimpleSymbol(codes) == Len(codes) >= 1 /\ codes[1] \notin 48..57 /\ \A i \in 1..Len(codes) : SimpleChar(codes[i])
IsQuotable(codes)     == \A i \in 1..Len(codes) : codes[i] \notin {124, 92}     \* no | or backslash
IdentOK(codes, quoted) == IF quoted = 1 THEN IsQuotable(codes) ELSE IsSimpleSymbol(codes)
=============================================================================
