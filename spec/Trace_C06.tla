---------------------------- MODULE Trace_C06 ----------------------------
(* (V) C06: what eval_expr / eval_bv_expr / eval_array_expr returned on the real code is accepted iff it is
   the value the SMT-LIB semantics of Expr.tla/BV.tla assigns, for every recorded assignment; the value is
   canonical (equal to / interns like the canonical representation); a supplied inner value short-circuits.
   Record: [id, nodes, root, exhaustive, runs, panics];
   run = [e |-> <<value per symbol, SymSeq order>>, v |-> <<override node, override bits>>,
          o |-> <<kind (0 ok, 1 panic), value, canon_eq, interns_same>>, a |-> <<values of other entry points>>] *)
EXTENDS Envs, Json, IOUtils
Rec == ndJsonDeserialize(IOEnv.TRACE)
VARIABLE l
Init == l = 1
Next == l <= Len(Rec) /\ l' = l + 1

EnvOf(ss, e) == [nm \in { ss[p].name : p \in 1..Len(ss) } |->
                   LET p == CHOOSE q \in 1..Len(ss) : ss[q].name = nm IN ValOfC(ss[p].t, e[p])]
\* a reported value (compact form) against the wanted spec value of type t
Matches(t, j, want) ==
  IF t.k = "bv" THEN j = want
  ELSE /\ \A p \in 1..Len(j.ents) : Len(j.ents[p][1]) = t.iw /\ Select(want, j.ents[p][1]) = j.ents[p][2]
       /\ Cardinality({ j.ents[p][1] : p \in 1..Len(j.ents) }) = 2^t.iw
RunWhy(r, ss, t, u) ==
  LET env  == EnvOf(ss, u.e)
      want == EvalAllOv(r.nodes, env, u.v[1], u.v[2])[r.root]
  IN  IF u.o[1] = 1 THEN "panic"
      ELSE IF ~Matches(t, u.o[2], want) THEN "value"
      ELSE IF \E q \in 1..Len(u.a) : ~Matches(t, u.a[q], want) THEN "value (alternative entry point or store)"
      ELSE IF u.o[3] # 1 THEN "result not equal to its canonical representation"
      ELSE IF u.o[4] # 1 THEN "result interns differently from its canonical representation"
      ELSE "ok"
\* classification of the *input* of a failing run (used only to tell recorded findings apart from new ones)
Tags(r, ss, u) ==
  LET v == PadV(EvalAllOv(r.nodes, EnvOf(ss, u.e), u.v[1], u.v[2]))
      nn(i) == Norm(r.nodes[i])
      shl64 == \E i \in 1..Len(r.nodes) : /\ r.nodes[i].op = "shl" /\ r.nodes[i].w > 64 /\ (r.nodes[i].w % 64) # 0
                                           /\ LET k == ShAmt(v[nn(i).a[2]], r.nodes[i].w) IN k > 0 /\ k < r.nodes[i].w /\ (k % 64) = 0
      arrdef == \E i \in 1..Len(r.nodes) : /\ r.nodes[i].op = "arreq"
                                            /\ LET x == v[nn(i).a[1]] y == v[nn(i).a[2]] IN x.def # y.def /\ ArrEq(x, y)
  IN  (IF shl64 THEN "shl-by-multiple-of-64;" ELSE "") \o (IF arrdef THEN "arreq-equal-arrays-different-defaults;" ELSE "")
\* when the harness claims exhaustive enumeration, TLC checks the claim
ExhOK(r, ss) == r.exhaustive = 1 =>
                  /\ Exhaustive(ss)
                  /\ Cardinality({ EnvOf(ss, r.runs[i].e) : i \in 1..Len(r.runs) }) = 2^TotalBits(ss)
Judge(r) ==
  IF ~WellTyped(r.nodes) THEN {<<"harness: ill-typed input", 0>>}
  ELSE IF ~NamesUnambiguous(r.nodes) THEN {<<"harness: ambiguous names", 0>>}
  ELSE LET ss == SymSeq(r.nodes) IN
       IF ~ExhOK(r, ss) THEN {<<"harness: enumeration not exhaustive", 0>>}
       ELSE LET t    == TypesAll(r.nodes)[r.root]
                whys == [i \in 1..Len(r.runs) |-> RunWhy(r, ss, t, r.runs[i])]
                bad  == { whys[i] : i \in 1..Len(r.runs) } \ {"ok"}
            IN  { <<w, CHOOSE i \in 1..Len(r.runs) : whys[i] = w /\ \A j \in 1..(i-1) : whys[j] # w>> : w \in bad }
Report(r, js) == \A j \in js :
  PrintT(<<"PV", ToJson([k |-> "reject", l |-> l, id |-> r.id, why |-> j[1], run |-> j[2],
                         cls |-> IF j[2] > 0 THEN Tags(r, SymSeq(r.nodes), r.runs[j[2]]) ELSE ""])>>)
Inv == l <= Len(Rec) => Report(Rec[l], Judge(Rec[l]))
=============================================================================
