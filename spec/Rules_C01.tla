---------------------------- MODULE Rules_C01 ----------------------------
(* (M)+(V) for the transcription SimplifyRules of simplify.rs: on every recorded bit-vector-only expression
   the model's normal form (a) has the input's width and is equivalent to the input under every assignment
   (the rules as designed are sound: judged by TLC, reported as "model-unsound" - a defect of the design or
   of the transcription, never attributed to the code) and (b) is compared structurally with what the real
   simplifier returned ("drift": reported as a statistic, never judged - rule 2.7-1 of DESIGN.md). *)
EXTENDS Envs, SimplifyRules, Json, IOUtils
Rec == ndJsonDeserialize(IOEnv.TRACE)
VARIABLE l
Init == l = 1
Next == l <= Len(Rec) /\ l' = l + 1
RECURSIVE Nest(_, _, _)
Nest(nodes, ts, i) == LET n == nodes[i] IN
  [op |-> n.op, w |-> ts[i].w, k |-> [j \in 1..Len(n.a) |-> Nest(nodes, ts, n.a[j])],
   hi |-> n.hi, lo |-> n.lo, by |-> n.by, name |-> n.name, bits |-> n.bits]
\* nodes reachable from i
InScope(r, ts) == \A i \in ReachFrom(r.nodes, {r.root, r.outs[1].roots[1]}) :
                     ts[i] # BAD /\ ts[i].k = "bv" /\ r.nodes[i].op \notin {"read", "arreq"}
Judge(r) ==
  LET ts == TypesAll(r.nodes) IN
  IF r.outs[1].kind # "ok" \/ ~InScope(r, ts) \/ ~NamesUnambiguous(r.nodes) THEN "skip"
  ELSE LET inp  == Nest(r.nodes, ts, r.root)
           real == Nest(r.nodes, ts, r.outs[1].roots[1])
           m    == Simp(inp, 60)
       IN IF m.op = "DIVERGE" THEN "model-diverges"
          ELSE LET fm == Flat(m)  ss == SymSeq(r.nodes) IN
               IF m.w # inp.w \/ \E env \in EnvsFor(ss, l, 8) : Eval(fm, Len(fm), env) # Eval(r.nodes, r.root, env)
               THEN "model-unsound"
               ELSE IF m = real THEN "same" ELSE "drift"
Inv == l <= Len(Rec) => LET j == Judge(Rec[l]) IN
        IF j = "same" THEN TRUE ELSE PrintT(<<"PV", ToJson([k |-> "model", l |-> l, id |-> Rec[l].id, why |-> j])>>)
=============================================================================
