------------------------------- MODULE BV -------------------------------
(* Bit-vector values are LSB-first sequences over {0,1}.  All operators follow
   SMT-LIB 2.6 FixedSizeBitVectors / QF_BV definitions. *)
EXTENDS Naturals, Sequences, SequencesExt

Idx(w)      == [i \in 1..w |-> i]
Zero(w)     == [i \in 1..w |-> 0]
Ones(w)     == [i \in 1..w |-> 1]
One(w)      == [i \in 1..w |-> IF i = 1 THEN 1 ELSE 0]
W(a)        == Len(a)
Msb(a)      == a[Len(a)]
BoolBV(p)   == IF p THEN <<1>> ELSE <<0>>
IsTrue(a)   == a = <<1>>

Not(a)      == [i \in 1..Len(a) |-> 1 - a[i]]
And(a, b)   == [i \in 1..Len(a) |-> IF a[i] = 1 /\ b[i] = 1 THEN 1 ELSE 0]
Or(a, b)    == [i \in 1..Len(a) |-> IF a[i] = 1 \/ b[i] = 1 THEN 1 ELSE 0]
Xor(a, b)   == [i \in 1..Len(a) |-> IF a[i] = b[i] THEN 0 ELSE 1]

Concat(hi, lo)    == lo \o hi
Extract(a, h, l)  == SubSeq(a, l + 1, h + 1)          \* bits h..l, 0-based
ZExt(a, by)       == a \o Zero(by)
SExt(a, by)       == a \o [i \in 1..by |-> Msb(a)]

AddC(a, b, cin) ==
  LET step(acc, i) == LET s == a[i] + b[i] + acc[1] IN << s \div 2, Append(acc[2], (s % 2)) >>
  IN  FoldLeft(step, <<cin, <<>> >>, Idx(Len(a)))[2]
Add(a, b)   == AddC(a, b, 0)
Sub(a, b)   == AddC(a, Not(b), 1)
Neg(a)      == AddC(Not(a), Zero(Len(a)), 1)

ShlK(a, k)  == [i \in 1..Len(a) |-> IF i > k THEN a[i - k] ELSE 0]
LshrK(a, k) == [i \in 1..Len(a) |-> IF i + k <= Len(a) THEN a[i + k] ELSE 0]
AshrK(a, k) == [i \in 1..Len(a) |-> IF i + k <= Len(a) THEN a[i + k] ELSE Msb(a)]

Mul(a, b) ==
  FoldLeft(LAMBDA acc, i : IF b[i] = 1 THEN Add(acc, ShlK(a, i - 1)) ELSE acc, Zero(Len(a)), Idx(Len(a)))

(* unsigned comparison: scan from the most significant bit; state = 0 undecided, 1 a>b, 2 a<b *)
Cmp(a, b) ==
  FoldLeft(LAMBDA st, i : LET j == Len(a) + 1 - i IN
             IF st # 0 THEN st ELSE IF a[j] = b[j] THEN 0 ELSE IF a[j] = 1 THEN 1 ELSE 2,
           0, Idx(Len(a)))
Ugt(a, b)   == Cmp(a, b) = 1
Uge(a, b)   == Cmp(a, b) # 2
Ult(a, b)   == Cmp(a, b) = 2
Ule(a, b)   == Cmp(a, b) # 1
FlipMsb(a)  == [i \in 1..Len(a) |-> IF i = Len(a) THEN 1 - a[i] ELSE a[i]]
Sgt(a, b)   == Ugt(FlipMsb(a), FlipMsb(b))
Sge(a, b)   == Uge(FlipMsb(a), FlipMsb(b))

(* shift amount as a natural number, saturated at w: exact for amounts < w, = w otherwise.
   Only the low bits that can matter are converted, so 129-bit amounts never overflow TLC ints. *)
ShAmt(b, w) ==
  LET acc == FoldLeft(LAMBDA st, i : IF st >= w THEN w
                                   ELSE IF b[i] = 0 THEN st
                                   ELSE IF i > 20 THEN w      \* 2^20 > any width used
                                   ELSE LET v == st + 2^(i-1) IN IF v >= w THEN w ELSE v,
                      0, Idx(Len(b)))
  IN acc
Shl(a, b)   == ShlK(a, ShAmt(b, Len(a)))
Lshr(a, b)  == LshrK(a, ShAmt(b, Len(a)))
Ashr(a, b)  == AshrK(a, ShAmt(b, Len(a)))

(* restoring division, MSB first; returns <<quotient, remainder>>; divisor # 0 *)
DivRem(a, b) ==
  LET w == Len(a)
      step(acc, i) ==
        LET j  == w + 1 - i                       \* current dividend bit, msb first
            r1 == <<a[j]>> \o SubSeq(acc[2], 1, w - 1)   \* (rem << 1) | a[j]   (drop old msb: rem < b so msb is 0 after compare logic)
            ov == acc[2][w] = 1                   \* shifted-out bit: remainder >= 2^w > b
            ge == ov \/ Uge(r1, b)
        IN  << [q \in 1..w |-> IF q = j THEN (IF ge THEN 1 ELSE 0) ELSE acc[1][q]],
               IF ge THEN Sub(r1, b) ELSE r1 >>
  IN  FoldLeft(step, << Zero(w), Zero(w) >>, Idx(w))
IsZero(a)   == a = Zero(Len(a))
Udiv(a, b)  == IF IsZero(b) THEN Ones(Len(a)) ELSE DivRem(a, b)[1]
Urem(a, b)  == IF IsZero(b) THEN a ELSE DivRem(a, b)[2]
Abs(a)      == IF Msb(a) = 1 THEN Neg(a) ELSE a
Sdiv(a, b)  == LET q == Udiv(Abs(a), Abs(b)) IN IF Msb(a) = Msb(b) THEN q ELSE Neg(q)
Srem(a, b)  == LET r == Urem(Abs(a), Abs(b)) IN IF Msb(a) = 1 THEN Neg(r) ELSE r
Smod(a, b)  == LET u == Urem(Abs(a), Abs(b)) IN
               IF IsZero(u) THEN u
               ELSE IF Msb(a) = 0 /\ Msb(b) = 0 THEN u
               ELSE IF Msb(a) = 1 /\ Msb(b) = 0 THEN Add(Neg(u), b)
               ELSE IF Msb(a) = 0 /\ Msb(b) = 1 THEN Add(u, b)
               ELSE Neg(u)
=============================================================================
