---------------------------- MODULE Btor2IllGen ----------------------------
(* (G) C18: systematic ill-formed btor2 files: every supported operator x each operand position x each wrong
   kind of reference (array for bit-vector and vice versa, sort ids, undefined / forward / self ids, negated
   array or sort ids, id 0, operand of another width, ids beyond u32).  One TLC state per descriptor. *)
EXTENDS Btor2, Json, TLC
VARIABLE d
AllOps == Unary \cup Binary \cup Ternary \cup {"read", "write"}
Kinds  == {"array", "sort", "arrsort", "undefined", "self", "neg_array", "neg_sort", "zero", "other_width", "huge", "bad_wide"}
Ar(op) == IF op \in Unary THEN 1 ELSE IF op \in Ternary \cup {"write"} THEN 3 ELSE 2
OpDescr == { [op |-> op, pos |-> p, kind |-> k, ar |-> Ar(op), sort |-> 0, st |-> 0, ex |-> 0] : op \in AllOps, p \in 1..3, k \in Kinds }
(* system lines: the harness declares sorts 1..5 (bv2, bv1, bv2->bv2, bv1->bv2, bv2->bv1), inputs 6 (bv2), 7 (bv1) and
   states 8 (bv2->bv2), 9 (bv2), 10 (bv1->bv2), 11 (bv2->bv1), 12 (bv1); an init / next line names a sort, a state and
   an expression - every combination, well-sorted or not, including the documented "bit-vector initialises an array"
   case; a bad / constraint / output line names an expression of any kind, a sort id, an undefined, negated or zero id. *)
LineDescr == { [op |-> op, pos |-> 0, kind |-> "line", ar |-> 0, sort |-> so, st |-> st, ex |-> ex] :
                 op \in {"init", "next"}, so \in 1..5, st \in {6, 8, 9, 10, 11, 12}, ex \in 6..12 }
        \cup { [op |-> op, pos |-> 0, kind |-> "line", ar |-> 0, sort |-> 0, st |-> 0, ex |-> ex] :
                 op \in {"bad", "constraint", "output"}, ex \in (6..12) \cup {1, 3, 99, 0} \cup {0 - 7, 0 - 8, 0 - 1} }
(* attribute lines: the harness declares sorts 1..3 = bitvec 2, 1, 3 and a 2-bit input 4; a slice / uext / sext line names
   a result sort and attribute values - every combination, of which only those with the right bounds and the right
   result width are well-sorted (here `sort` is the sort id, `st` the first and `ex` the second attribute). *)
AttrDescr == { [op |-> "slice", pos |-> 0, kind |-> "attr", ar |-> 0, sort |-> so, st |-> hi, ex |-> lo] : so \in 1..3, hi \in 0..4, lo \in 0..4 }
        \cup { [op |-> op, pos |-> 0, kind |-> "attr", ar |-> 0, sort |-> so, st |-> by, ex |-> 0] : op \in {"uext", "sext"}, so \in 1..3, by \in 0..3 }
\* reductions over an operand of the largest sort the reader accepts (redxor is lowered to one slice per operand bit)
HugeDescr == { [op |-> op, pos |-> 0, kind |-> "hugesort", ar |-> 0, sort |-> 0, st |-> 0, ex |-> 0] : op \in {"redxor", "redand", "redor", "not", "slice"} }
\* inputs of recorded findings that the mutation driver does not reach in every run: an array sort over an array sort,
\* constants whose digits do not fit the declared width
KnownDescr == { [op |-> op, pos |-> 0, kind |-> "known", ar |-> 0, sort |-> 0, st |-> 0, ex |-> 0] : op \in {"arrofarr_index", "arrofarr_data", "constd_fit", "consth_fit", "const_fit"} }
Init == d \in OpDescr \cup LineDescr \cup AttrDescr \cup HugeDescr \cup KnownDescr /\ d.pos <= d.ar
Next == UNCHANGED d
Emit == PrintT(<<"PV", ToJson(d)>>)
=============================================================================
