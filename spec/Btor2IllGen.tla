---------------------------- MODULE Btor2IllGen ----------------------------
(* (G) C18: systematic ill-formed btor2 files: every supported operator x each operand position x each wrong
   kind of reference (array for bit-vector and vice versa, sort ids, undefined / forward / self ids, negated
   array or sort ids, id 0, operand of another width, ids beyond u32).  One TLC state per descriptor. *)
EXTENDS Btor2, Json, TLC
VARIABLE d
AllOps == Unary \cup Binary \cup Ternary \cup {"read", "write"}
Kinds  == {"array", "sort", "arrsort", "undefined", "self", "neg_array", "neg_sort", "zero", "other_width", "huge", "bad_wide"}
Ar(op) == IF op \in Unary THEN 1 ELSE IF op \in Ternary \cup {"write"} THEN 3 ELSE 2
Init == d \in { [op |-> op, pos |-> p, kind |-> k, ar |-> Ar(op)] : op \in AllOps, p \in 1..3, k \in Kinds } /\ d.pos <= d.ar
Next == UNCHANGED d
Emit == PrintT(<<"PV", ToJson(d)>>)
=============================================================================
