---------------------------- MODULE BVSelfTest ----------------------------
(* (M) The bit-level definitions of BV.tla against an independent formulation over TLC's integers,
   for every operator and all operands of width <= MaxW (SMT-LIB 2.6 FixedSizeBitVectors, incl. the
   division-by-zero cases and truncating / flooring signed division). *)
EXTENDS BV, Integers, TLC
CONSTANT MaxW
VARIABLES w, a, b
ToNat(x)     == FoldLeft(LAMBDA acc, i : acc + x[i] * (2^(i-1)), 0, Idx(Len(x)))
OfNat(n, ww) == [i \in 1..ww |-> ((n \div (2^(i-1))) % 2)]
ToInt(x)     == IF Msb(x) = 1 THEN ToNat(x) - 2^Len(x) ELSE ToNat(x)
OfInt(n, ww) == OfNat((n % (2^ww)), ww)
AbsI(n)      == IF n < 0 THEN -n ELSE n
TDiv(x, y)   == LET q == AbsI(x) \div AbsI(y) IN IF (x < 0) = (y < 0) THEN q ELSE -q      \* truncating
TRem(x, y)   == x - y * TDiv(x, y)
Init == w \in 1..MaxW /\ a \in [1..w -> {0, 1}] /\ b \in [1..w -> {0, 1}]
Next == UNCHANGED <<w, a, b>>
M == 2^w
na == ToNat(a)  nb == ToNat(b)  ia == ToInt(a)  ib == ToInt(b)
Agree ==
  /\ Not(a) = OfNat(M - 1 - na, w)
  /\ Neg(a) = OfNat((M - na) % M, w)
  /\ Add(a, b) = OfNat((na + nb) % M, w)
  /\ Sub(a, b) = OfNat((na + M - nb) % M, w)
  /\ Mul(a, b) = OfNat((na * nb) % M, w)
  /\ Udiv(a, b) = (IF nb = 0 THEN Ones(w) ELSE OfNat(na \div nb, w))
  /\ Urem(a, b) = (IF nb = 0 THEN a ELSE OfNat((na % nb), w))
  /\ Sdiv(a, b) = (IF ib = 0 THEN (IF ia < 0 THEN One(w) ELSE Ones(w)) ELSE OfInt(TDiv(ia, ib), w))
  /\ Srem(a, b) = (IF ib = 0 THEN a ELSE OfInt(TRem(ia, ib), w))
  /\ Smod(a, b) = (IF ib = 0 THEN a ELSE OfInt((ia % AbsI(ib)) + (IF ib < 0 /\ (ia % AbsI(ib)) # 0 THEN ib ELSE 0), w))
  /\ Shl(a, b)  = (IF nb >= w THEN Zero(w) ELSE OfNat((na * (2^nb)) % M, w))
  /\ Lshr(a, b) = (IF nb >= w THEN Zero(w) ELSE OfNat(na \div (2^nb), w))
  /\ Ashr(a, b) = (IF nb >= w THEN (IF ia < 0 THEN Ones(w) ELSE Zero(w)) ELSE OfInt(ia \div (2^nb), w))
  /\ Ugt(a, b) = (na > nb) /\ Uge(a, b) = (na >= nb) /\ Ult(a, b) = (na < nb) /\ Ule(a, b) = (na <= nb)
  /\ Sgt(a, b) = (ia > ib) /\ Sge(a, b) = (ia >= ib)
  /\ And(a, b) = [i \in 1..w |-> (a[i] * b[i])]
  /\ Or(a, b)  = [i \in 1..w |-> (a[i] + b[i] - a[i] * b[i])]
  /\ Xor(a, b) = [i \in 1..w |-> ((a[i] + b[i]) % 2)]
  /\ ToNat(Concat(a, b)) = na * M + nb
  /\ ToNat(ZExt(a, 2)) = na /\ ToInt(SExt(a, 2)) = ia
  /\ \A h \in 0..(w-1) : \A lo \in 0..h : ToNat(Extract(a, h, lo)) = ((na \div (2^lo)) % (2^(h - lo + 1)))
=============================================================================
