CONSTANTS
 Full = FALSE
 Repaired = TRUE
INIT TInit
NEXT TNext
INVARIANT TInv
CHECK_DEADLOCK FALSE
