CONSTANT Full = FALSE
INIT TInit
NEXT TNext
INVARIANT TInv
CHECK_DEADLOCK FALSE
