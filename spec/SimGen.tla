------------------------------- MODULE SimGen -------------------------------
(* (G) C07: every history of simulator calls up to length Depth over a small call alphabet; each history is
   replayed on the real Interpreter for a family of fixed tiny systems and validated by Trace_C07. *)
EXTENDS Naturals, Sequences, TLC, Json
CONSTANT Depth
VARIABLES h, nsnap
Ops == {"init_zero", "init_rand", "step", "set0_a", "set0_b", "set1_a", "snap", "restore_first", "restore_last"}
Init == h = <<>> /\ nsnap = 0
Next == /\ Len(h) < Depth
        /\ \E op \in Ops :
             /\ (Len(h) = 0 => op \in {"init_zero", "init_rand"})
             /\ (op \in {"restore_first", "restore_last"} => nsnap > 0)
             /\ h' = Append(h, op)
             /\ nsnap' = IF op = "snap" THEN nsnap + 1 ELSE IF op \in {"init_zero", "init_rand"} THEN nsnap ELSE nsnap
Emit == Len(h) = Depth => PrintT(<<"PV", ToJson([ops |-> h])>>)
=============================================================================
