----------------------------- MODULE WitnessReader -----------------------------
(* Design-level model of the btor2 witness printer (btor2/witness.rs:219-329) and of the reader's
   line-state machine (witness.rs:28-211), over abstract lines.  Property: Read(Print(ws)) = ws.     *)
EXTENDS Naturals, Sequences, FiniteSets, SequencesExt, TLC, Json
\* an abstract witness: failed (sequence of property ids), init (sequence of state values), inputs (steps x inputs)
\* a state value is [k |-> "bv", v |-> 0..1] or [k |-> "arr", ents |-> sequence of <<index, value>> with distinct, sorted indices]
BvVals  == { [k |-> "bv", v |-> x, ents |-> <<>>] : x \in 0..1 }
ArrVals == { [k |-> "arr", v |-> 0, ents |-> e] : e \in { << <<0, 1>> >>, << <<1, 0>> >>, << <<0, 0>>, <<1, 1>> >> } }
Witnesses == { [failed |-> f, init |-> i, inputs |-> inp] :
                 f \in { <<0>>, <<1, 0>> },
                 i \in { <<>> } \cup { <<a>> : a \in BvVals \cup ArrVals } \cup { <<a, b>> : a \in BvVals, b \in ArrVals },
                 inp \in { << <<>> >>, << <<0>> >>, << <<1, 0>>, <<0, 1>> >>, << <<>>, <<>> >> } }
\* ---- printer
StateLines(id, val) == IF val.k = "bv" THEN << [t |-> "assign", id |-> id, idx |-> 9, val |-> val.v] >>
                       ELSE [j \in 1..Len(val.ents) |-> [t |-> "assign", id |-> id, idx |-> val.ents[j][1], val |-> val.ents[j][2]]]
Frame(c, n) == [t |-> "frame", c |-> c, n |-> n, id |-> 0, idx |-> 0, val |-> 0]
PrintW(w) ==
     << [t |-> "sat", id |-> 0, idx |-> 0, val |-> 0], [t |-> "props", ps |-> w.failed, id |-> 0, idx |-> 0, val |-> 0] >>
  \o (IF Len(w.init) = 0 THEN <<>>
      ELSE <<Frame("#", 0)>> \o FoldLeft(LAMBDA acc, i : acc \o StateLines(i - 1, w.init[i]), <<>>, [i \in 1..Len(w.init) |-> i]))
  \o FoldLeft(LAMBDA acc, kk : acc \o <<Frame("@", kk - 1)>>
                                   \o [j \in 1..Len(w.inputs[kk]) |-> [t |-> "assign", id |-> j - 1, idx |-> 9, val |-> w.inputs[kk][j]]],
              <<>>, [kk \in 1..Len(w.inputs) |-> kk])
  \o << [t |-> "dot", id |-> 0, idx |-> 0, val |-> 0] >>
\* ---- reader (state machine over lines)
Empty == [failed |-> <<>>, init |-> <<>>, inputs |-> <<>>]
None  == [k |-> "none", v |-> 0, ents |-> <<>>]
Grow(seq, n, d) == IF Len(seq) >= n THEN seq ELSE seq \o [j \in 1..(n - Len(seq)) |-> d]
Merge(old, ln) ==          \* update_value: first value wins the slot, arrays merge entries (sorted, deduplicated, later write wins)
  IF ln.idx = 9 THEN (IF old = None THEN [k |-> "bv", v |-> ln.val, ents |-> <<>>] ELSE [k |-> "PANIC", v |-> 0, ents |-> <<>>])
  ELSE IF old = None THEN [k |-> "arr", v |-> 0, ents |-> << <<ln.idx, ln.val>> >>]
  ELSE IF old.k # "arr" THEN [k |-> "PANIC", v |-> 0, ents |-> <<>>]
  ELSE LET others == SelectSeq(old.ents, LAMBDA e : e[1] # ln.idx)
           all    == { others[j] : j \in 1..Len(others) } \cup { <<ln.idx, ln.val>> }
       IN [k |-> "arr", v |-> 0, ents |-> SetToSortSeq(all, LAMBDA x, y : x[1] < y[1])]
VARIABLES ws, lines, pos, st, at, wit, cur, out, parseMax
vars == <<ws, lines, pos, st, at, wit, cur, out, parseMax>>
Init == /\ ws \in { <<a>> : a \in Witnesses } \cup { <<a, b>> : a \in Witnesses, b \in { x \in Witnesses : Len(x.init) <= 1 /\ Len(x.inputs) = 1 } }
        /\ parseMax \in 1..2 /\ parseMax <= Len(ws)
        /\ lines = FoldLeft(LAMBDA acc, i : acc \o PrintW(ws[i]), <<>>, [i \in 1..Len(ws) |-> i])
        /\ pos = 1 /\ st = "Start" /\ at = 0 /\ wit = Empty /\ cur = <<>> /\ out = <<>>
FinishInputs(w) == [w EXCEPT !.inputs = Append(@, cur)]
Step == /\ st \notin {"Done", "PANIC"} /\ pos <= Len(lines)
        /\ LET ln == lines[pos] IN
           /\ pos' = pos + 1
           /\ CASE st = "Start" -> (IF ln.t = "sat" THEN st' = "WaitForProp" ELSE st' = "PANIC") /\ UNCHANGED <<at, wit, cur, out>>
                [] st = "WaitForProp" -> (IF ln.t = "props" THEN st' = "WaitForFrame" /\ wit' = [wit EXCEPT !.failed = ln.ps] ELSE st' = "PANIC" /\ wit' = wit) /\ UNCHANGED <<at, cur, out>>
                [] st = "WaitForFrame" ->
                     IF ln.t = "frame" /\ ln.c = "@" THEN (IF ln.n = Len(wit.inputs) THEN st' = "Inputs" ELSE st' = "PANIC") /\ at' = ln.n /\ UNCHANGED <<wit, cur, out>>
                     ELSE IF ln.t = "frame" /\ ln.c = "#" /\ ln.n = 0 THEN st' = "States" /\ at' = 0 /\ UNCHANGED <<wit, cur, out>>
                     ELSE st' = "PANIC" /\ UNCHANGED <<at, wit, cur, out>>
                [] st = "States" ->
                     IF ln.t = "dot" THEN /\ out' = Append(out, wit) /\ wit' = Empty /\ cur' = <<>> /\ at' = at
                                          /\ st' = IF Len(out) + 1 >= parseMax THEN "Done" ELSE "Start"
                     ELSE IF ln.t = "frame" /\ ln.c = "@" THEN (IF ln.n = Len(wit.inputs) THEN st' = "Inputs" ELSE st' = "PANIC") /\ at' = ln.n /\ UNCHANGED <<wit, cur, out>>
                     ELSE IF ln.t = "assign" THEN
                          LET grown == Grow(wit.init, ln.id + 1, None)
                              upd   == IF at = 0 THEN [grown EXCEPT ![ln.id + 1] = Merge(grown[ln.id + 1], ln)] ELSE wit.init IN
                          /\ wit' = [wit EXCEPT !.init = upd]
                          /\ st' = (IF at = 0 /\ upd[ln.id + 1].k = "PANIC" THEN "PANIC" ELSE "States") /\ UNCHANGED <<at, cur, out>>
                     ELSE st' = "PANIC" /\ UNCHANGED <<at, wit, cur, out>>
                [] st = "Inputs" ->
                     IF ln.t = "dot" THEN /\ out' = Append(out, FinishInputs(wit)) /\ wit' = Empty /\ cur' = <<>> /\ at' = at
                                          /\ st' = IF Len(out) + 1 >= parseMax THEN "Done" ELSE "Start"
                     ELSE IF ln.t = "frame" /\ ln.c = "@" THEN /\ wit' = FinishInputs(wit) /\ cur' = <<>> /\ at' = ln.n /\ out' = out
                                                              /\ st' = IF ln.n = Len(wit.inputs) + 1 THEN "Inputs" ELSE "PANIC"
                     ELSE IF ln.t = "frame" /\ ln.c = "#" THEN wit' = FinishInputs(wit) /\ cur' = <<>> /\ at' = ln.n /\ st' = "States" /\ out' = out
                     ELSE IF ln.t = "assign" THEN cur' = [Grow(cur, ln.id + 1, 8) EXCEPT ![ln.id + 1] = ln.val] /\ UNCHANGED <<st, at, wit, out>>
                     ELSE st' = "PANIC" /\ UNCHANGED <<at, wit, cur, out>>
        /\ UNCHANGED <<ws, lines, parseMax>>
Stop == (st \in {"Done", "PANIC"} \/ pos > Len(lines)) /\ UNCHANGED vars
Next == Step \/ Stop
\* the abstract witness the reader should reconstruct (arrays: entries as printed, i.e. exactly the recorded ones)
Expect(w) == [failed |-> w.failed, init |-> w.init, inputs |-> w.inputs]
RoundTrip == (st = "Done" \/ pos > Len(lines)) =>
               /\ st # "PANIC"
               /\ Len(out) = parseMax
               /\ \A i \in 1..parseMax : out[i] = Expect(ws[i])
NoPanic == st # "PANIC"
\* (G) every stream of witnesses explored by the model is also emitted for the real printer / reader
EmitWs == pos = 1 => PrintT(<<"PV", ToJson([ws |-> ws, parse_max |-> parseMax])>>)
=============================================================================
