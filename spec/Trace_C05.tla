---------------------------- MODULE Trace_C05 ----------------------------
(* (V) C05: the text serialize_cmd wrote - declarations of all symbols followed by a define-fun / assert /
   check-sat-assuming / get-value - tokenised by the harness' own front end, is accepted iff
     - every identifier obeys the SMT-LIB symbol grammar and denotes the intended symbol;
     - every declared sort is the sort of the symbol's type (1-bit values are Bool);
     - every term is strictly well-sorted under those declarations (SmtLib.tla), asserted / assumed terms are
       Bool, a defined constant has the sort of the expression's type;
     - under every assignment the term's SMT-LIB value equals the expression's value (Expr.tla), Bool ~ 1 bit. *)
EXTENDS SmtLib, Envs, Json, IOUtils
Rec == ndJsonDeserialize(IOEnv.TRACE)
VARIABLE l
Init == l = 1
Next == l <= Len(Rec) /\ l' = l + 1
SortFor(t) == IF t.k = "bv" THEN (IF t.w = 1 THEN BoolS ELSE BVS(t.w))
              ELSE [NoneS EXCEPT !.k = "arr", !.ik = IF t.iw = 1 THEN "bool" ELSE "bv", !.iw = IF t.iw = 1 THEN 0 ELSE t.iw,
                                 !.dk = IF t.dw = 1 THEN "bool" ELSE "bv", !.dw = IF t.dw = 1 THEN 0 ELSE t.dw]
Why(r) ==
  IF r.outcome = "panic" THEN "panic"
  ELSE IF r.outcome # "ok" THEN "written text is not readable as SMT-LIB commands"
  ELSE IF ~WellTyped(r.nodes) THEN "harness: ill-typed input"
  ELSE
  LET ss    == SymSeq(r.nodes)
      ncmd  == Len(r.cmds)
      decl  == SubSeq(r.cmds, 1, ncmd - 1)
      main  == r.cmds[ncmd]
      names == { ss[p].name : p \in 1..Len(ss) }
      tyOf(nm) == ss[CHOOSE p \in 1..Len(ss) : ss[p].name = nm].t
      decls == [nm \in { decl[i].name : i \in 1..Len(decl) } |-> decl[CHOOSE i \in 1..Len(decl) : decl[i].name = nm].sort]
      st    == SortsAll(main.nodes, decls)
      ty    == TypesAll(r.nodes)
  IN
  IF ncmd # Len(ss) + 1 THEN "wrong number of commands"
  ELSE IF \E i \in 1..Len(decl) : decl[i].c # "declare-const" THEN "declaration expected"
  ELSE IF \E i \in 1..Len(decl) : ~IdentOK(decl[i].codes, decl[i].quoted) THEN "identifier is not a legal SMT-LIB symbol"
  ELSE IF { decl[i].name : i \in 1..Len(decl) } # names \/ Len(decl) # Cardinality(names) THEN "declared names are not the symbols' names"
  ELSE IF \E i \in 1..Len(decl) : decl[i].sort # SortFor(tyOf(decl[i].name)) THEN "declared sort is not the sort of the symbol's type"
  ELSE IF main.c # (CASE r.kind = "define" -> "define-fun" [] r.kind = "assert" -> "assert" [] r.kind = "csa" -> "check-sat-assuming" [] OTHER -> "get-value") THEN "wrong command"
  ELSE IF Len(main.roots) # Len(r.roots) THEN "wrong number of terms"
  ELSE IF \E i \in 1..Len(main.nodes) : main.nodes[i].k = "id" /\ ~IdentOK(main.nodes[i].codes, main.nodes[i].v) THEN "identifier in term is not a legal SMT-LIB symbol"
  ELSE IF \E i \in 1..Len(main.nodes) : st[i].k = "err" THEN "term is not well-sorted"
  ELSE IF \E j \in 1..Len(r.roots) : st[main.roots[j]] # SortFor(ty[r.roots[j]]) THEN "term does not have the sort of the expression's type"
  ELSE IF r.kind = "define" /\ (main.sort # SortFor(ty[r.roots[1]]) \/ ~IdentOK(main.codes, main.quoted)) THEN "defined constant has the wrong sort or name"
  ELSE IF r.kind \in {"assert", "csa"} /\ \E j \in 1..Len(r.roots) : st[main.roots[j]] # BoolS THEN "asserted term is not Bool"
  ELSE IF \E env \in EnvsFor(ss, l, 8) :
            LET ve == EvalAll(r.nodes, env)  vs == SmtEvalAll(main.nodes, env, st) IN
            \E j \in 1..Len(r.roots) : ~ValEq(ty[r.roots[j]], ve[r.roots[j]], vs[main.roots[j]])
       THEN "term has a different value than the expression"
  ELSE "ok"
Inv == l <= Len(Rec) => LET w == Why(Rec[l]) IN
         IF w = "ok" THEN TRUE ELSE PrintT(<<"PV", ToJson([k |-> "reject", l |-> l, id |-> Rec[l].id, why |-> w, loc |-> Rec[l].loc])>>)
=============================================================================
