---------------------------- MODULE Trace_C04 ----------------------------
(* (V) C04: the SMT-LIB script the real encoder wrote while unrolling a system is
     well-formed - every command is enabled in the SmtScript machine: a declared / defined name is not visible
                   in any open scope, every free identifier is visible, bodies have their declared sort (strict
                   sorting of SmtLib.tla), asserted terms are Bool, pop never goes below the base level;
     faithful    - under EVERY concrete execution of the system (every start state - initial states when the
                   unrolling starts at step 0 with init applied, arbitrary states when it starts later, as PDR
                   does - and every input sequence) the per-step symbols of states, inputs, constraints and bad
                   states evaluate (SmtEvalAll) to the values TSys.tla gives those signals in that step.
   Record "Enc": [sys, start, k, script = [ok, cmds], map = <<[kind, idx, step, name]>>];
   record "Run": a bmc / pdr run whose replay script is checked for well-formedness only. *)
EXTENDS TSys, SmtLib, Json, IOUtils
Rec == ndJsonDeserialize(IOEnv.TRACE)
VARIABLE l
Init == l = 1
Next == l <= Len(Rec) /\ l' = l + 1
EmptyScope == [x \in {} |-> NoneS]
VisibleOf(scopes) == FoldLeft(LAMBDA acc, i : scopes[i] @@ acc, EmptyScope, Idx(Len(scopes)))
TermsOK(r, vis, want) == LET st == SortsAll(r.nodes, vis) IN \A j \in 1..Len(r.roots) : st[r.roots[j]] = want
\* one step of the command-level machine: <<why, scopes'>>
Step(r, scopes) ==
  LET vis == VisibleOf(scopes) IN
  CASE r.c = "declare-const" ->
         IF r.name \in DOMAIN vis THEN <<"a name is declared twice", scopes>>
         ELSE IF ~IdentOK(r.codes, r.quoted) THEN <<"identifier is not a legal SMT-LIB symbol", scopes>>
         ELSE <<"ok", [scopes EXCEPT ![Len(scopes)] = (r.name :> r.sort) @@ @]>>
    [] r.c = "define-fun" ->
         IF r.name \in DOMAIN vis THEN <<"a name is defined twice", scopes>>
         ELSE IF ~IdentOK(r.codes, r.quoted) THEN <<"identifier is not a legal SMT-LIB symbol", scopes>>
         ELSE IF ~TermsOK(r, vis, r.sort) THEN <<"definition uses an undeclared symbol or is ill-sorted", scopes>>
         ELSE <<"ok", [scopes EXCEPT ![Len(scopes)] = (r.name :> r.sort) @@ @]>>
    [] r.c \in {"assert", "check-sat-assuming"} ->
         IF TermsOK(r, vis, BoolS) THEN <<"ok", scopes>> ELSE <<"asserted term uses an undeclared symbol or is not Bool", scopes>>
    [] r.c = "get-value" ->
         IF \A j \in 1..Len(r.roots) : SortsAll(r.nodes, vis)[r.roots[j]].k \in {"bool", "bv", "arr"} THEN <<"ok", scopes>> ELSE <<"get-value of an undeclared or ill-sorted term", scopes>>
    [] r.c = "push" -> <<"ok", scopes \o [i \in 1..r.n |-> EmptyScope]>>
    [] r.c = "pop"  -> IF r.n < Len(scopes) THEN <<"ok", SubSeq(scopes, 1, Len(scopes) - r.n)>> ELSE <<"pop below the base level", scopes>>
    [] r.c = "exit" -> <<"ok", <<EmptyScope>> >>
    [] OTHER -> <<"ok", scopes>>
\* first failing command: <<why, position>>
WellFormed(cmds) ==
  FoldLeft(LAMBDA acc, i : IF acc[1] # "ok" THEN acc
                          ELSE LET s == Step(cmds[i], acc[3]) IN <<s[1], i, s[2]>>,
           <<"ok", 0, <<EmptyScope>> >>, Idx(Len(cmds)))
\* ---- faithfulness
NextOf(S, st, inp) == LET v == Vals(S, st, inp) IN
   [nm \in DOMAIN st |-> LET i == CHOOSE j \in 1..Len(S.states) : S.states[j].name = nm IN
                         IF S.states[i].next = 0 THEN st[nm] ELSE Canon(TOfJson(S.states[i].t), v[S.states[i].next])]
RECURSIVE StateAt(_, _, _, _)
StateAt(S, s0, ins, j) == IF j = 0 THEN s0 ELSE NextOf(S, StateAt(S, s0, ins, j - 1), ins[j])
Want(S, m, s0, ins) ==
  LET st == StateAt(S, s0, ins, m.step)  v == Vals(S, st, ins[m.step + 1]) IN
  CASE m.kind = "state" -> st[S.states[m.idx].name]
    [] m.kind = "input" -> ins[m.step + 1][S.inputs[m.idx].name]
    [] m.kind = "constraint" -> v[S.constraints[m.idx]]
    [] OTHER -> v[S.bads[m.idx]]
WantType(S, m) == CASE m.kind = "state" -> TOfJson(S.states[m.idx].t) [] m.kind = "input" -> TOfJson(S.inputs[m.idx].t) [] OTHER -> BVT(1)
InputSeqs(S, k) == [1..(k + 1) -> Inputs(S)]
Faithful(r) ==
  LET S == r.sys  cmds == SelectSeq(r.script.cmds, LAMBDA c : c.c \in {"declare-const", "define-fun"})
      mapped == { r.map[i].name : i \in 1..Len(r.map) }
      mapOf(nm) == r.map[CHOOSE i \in 1..Len(r.map) : r.map[i].name = nm]
      decls == FoldLeft(LAMBDA d, i : (cmds[i].name :> cmds[i].sort) @@ d, EmptyScope, Idx(Len(cmds)))
      starts == IF r.start = 0 THEN InitStates(S) ELSE States(S)
  IN
  IF \E i \in 1..Len(cmds) : cmds[i].c = "declare-const" /\ cmds[i].name \notin mapped THEN "a declared constant is not the step symbol of any state or input"
  ELSE IF \E s0 \in starts : \E ins \in InputSeqs(S, r.k) :
            LET env == FoldLeft(LAMBDA e, i : LET c == cmds[i] IN
                                  IF c.c = "declare-const" THEN (c.name :> Want(S, mapOf(c.name), s0, ins)) @@ e
                                  ELSE (c.name :> SmtEvalAll(c.nodes, e, SortsAll(c.nodes, decls))[c.roots[1]]) @@ e,
                                [x \in {} |-> <<>>], Idx(Len(cmds)))
            IN \E i \in 1..Len(r.map) : r.map[i].name # "<lit>" /\
                  (r.map[i].name \notin DOMAIN env \/ ~ValEq(WantType(S, r.map[i]), env[r.map[i].name], Want(S, r.map[i], s0, ins)))
       THEN "a step symbol does not have the value of its signal in that step"
  ELSE "ok"
Why(r) ==
  IF r.script.ok # 1 THEN <<"script is not readable as SMT-LIB commands", 0>>
  ELSE LET wf == WellFormed(r.script.cmds) IN
       IF wf[1] # "ok" THEN <<wf[1], wf[2]>>
       \* (executions of systems with states that have no next function are not enumerated: well-formedness only)
       ELSE IF r.ev = "Enc" /\ r.outcome.kind = "ok" /\ r.check_faith = 1 THEN <<Faithful(r), 0>>
       ELSE IF r.ev = "Enc" /\ r.outcome.kind = "ok" THEN <<"ok", 0>>
       ELSE IF r.ev = "Enc" /\ r.outcome.kind # "ok" THEN <<"encoder failed although its script is well-formed: " \o r.outcome.kind, 0>>
       ELSE <<"ok", 0>>
\* input class of a rejected script (tells the recorded finding apart from new ones): the failing definition
\* comes before the first command that introduces a state symbol of the first step
Cls(r, p) ==
  IF p = 0 THEN ""
  ELSE LET cmds == r.script.cmds
           st0 == { r.state0[i] : i \in 1..Len(r.state0) }
           firstState == { i \in 1..Len(cmds) : cmds[i].c \in {"declare-const", "define-fun"} /\ cmds[i].name \in st0 }
       IN IF cmds[p].c = "define-fun" /\ \A i \in firstState : p < i THEN "defined before the states of the first step" ELSE ""
Inv == l <= Len(Rec) /\ Rec[l].ev \in {"Enc", "Run"} =>
         LET w == Why(Rec[l]) IN
         IF w[1] = "ok" THEN TRUE
         ELSE PrintT(<<"PV", ToJson([k |-> "reject", l |-> l, id |-> Rec[l].id, why |-> w[1], cmd |-> w[2], cls |-> Cls(Rec[l], w[2]),
                                     name |-> IF w[2] > 0 THEN Rec[l].script.cmds[w[2]].name ELSE ""])>>)
=============================================================================
