---------------------------- MODULE SmtLetParser ----------------------------
(* (M) the SMT-LIB reader's token machine for terms with `let` (smt/parser.rs: parse_expr_or_type, the Let / Open(true) /
   LetScopeOpenMissingClose items, NestedSymbolTable with its undo stack), transcribed - and checked against the standard
   meaning of let on EVERY term of a small language:

     t ::= c0 | c1 | a | b | x | (f t t) | (let ((n t)) t) | (let ((n t) (n' t)) t)       n, n' in {a, b, x}

   a and b are declared symbols, x is not; f stands for any binary operator.  Ref(t, env) is the SMT-LIB meaning (the
   bindings of one let are evaluated in the OUTER scope, the body in the extended one, an inner binding shadows an outer
   one and a declared symbol of the same name, scopes end with their closing parenthesis); a free x has no meaning.
   Machine(tokens) is what the code computes.  Checked:
     Agree     for terms whose lets all have ONE binding the machine returns exactly Ref (value or error);
     MultiErr  (as found) for terms with a let of two bindings the machine returns an error, never a wrong value
               (design-level image of the former finding KF-C14-let-multi: z3 prints such lets for large arrays);
     AgreeAll  (repaired) the machine returns exactly Ref for every term.
   The harness replays the same terms, written as text over bvxor / #b.. / declared a, b, through the real parse_expr;
   Trace_SmtLet.tla compares the outcome class and the value with this model's prediction. *)
EXTENDS Naturals, Sequences, FiniteSets, TLC, Json
CONSTANTS Full,          \* TRUE: all terms of depth 2; FALSE: depth 2 with one deep operand
          Repaired       \* FALSE: the reader as found (a let takes one binding); TRUE: after the repair in /repo - the bindings of
                         \* a let are collected and come into scope together when the binding list is closed

Names  == {"a", "b", "x"}
Decl   == {"a", "b"}
C(v)       == [k |-> "c", v |-> v]
S(n)       == [k |-> "s", n |-> n]
F(p, q)    == [k |-> "f", a |-> p, b |-> q]
Let1(n, v, body)        == [k |-> "let", bs |-> << [n |-> n, v |-> v] >>, body |-> body]
Let2(n, v, m, w, body)  == [k |-> "let", bs |-> << [n |-> n, v |-> v], [n |-> m, v |-> w] >>, body |-> body]
ERR == [k |-> "err"]

T0 == { C(0), C(1) } \cup { S(n) : n \in Names }
Grow(A, B) == { F(p, q) : p \in A, q \in B } \cup { Let1(n, v, body) : n \in Names, v \in A, body \in B }
T1 == T0 \cup Grow(T0, T0) \cup { Let2(nm[1], v, nm[2], w, body) : nm \in { q \in Names \X Names : q[1] # q[2] }, v \in T0, w \in T0, body \in T0 }
T2 == IF Full THEN T1 \cup Grow(T1, T1) ELSE T1 \cup Grow(T1, T0) \cup Grow(T0, T1)

(* ---- the standard meaning ---- *)
RECURSIVE Ref(_, _)
Ref(t, env) ==
  CASE t.k = "c" -> t
    [] t.k = "s" -> IF t.n \in DOMAIN env THEN env[t.n] ELSE ERR
    [] t.k = "f" -> LET p == Ref(t.a, env) q == Ref(t.b, env) IN IF p = ERR \/ q = ERR THEN ERR ELSE F(p, q)
    [] t.k = "let" ->
         LET vals == [i \in 1..Len(t.bs) |-> Ref(t.bs[i].v, env)]
             bound == { t.bs[i].n : i \in 1..Len(t.bs) }
             env2 == [nm \in DOMAIN env \cup bound |->
                        IF nm \in bound THEN vals[CHOOSE i \in 1..Len(t.bs) : t.bs[i].n = nm] ELSE env[nm]]
         IN  IF \E i \in 1..Len(t.bs) : vals[i] = ERR THEN ERR ELSE Ref(t.body, env2)
TopEnv == [nm \in Decl |-> [k |-> "sym", n |-> nm]]
RECURSIVE HasMulti(_)
HasMulti(t) == CASE t.k = "f" -> HasMulti(t.a) \/ HasMulti(t.b)
                 [] t.k = "let" -> Len(t.bs) > 1 \/ HasMulti(t.body) \/ \E i \in 1..Len(t.bs) : HasMulti(t.bs[i].v)
                 [] OTHER -> FALSE

(* ---- text ---- *)
RECURSIVE Toks(_)
Toks(t) ==
  CASE t.k = "c" -> << IF t.v = 0 THEN "c0" ELSE "c1" >>
    [] t.k = "s" -> << t.n >>
    [] t.k = "f" -> << "(", "f" >> \o Toks(t.a) \o Toks(t.b) \o << ")" >>
    [] t.k = "let" ->
         LET bind(i) == << "(", t.bs[i].n >> \o Toks(t.bs[i].v) \o << ")" >>
             all == IF Len(t.bs) = 1 THEN bind(1) ELSE bind(1) \o bind(2)
         IN  << "(", "let", "(" >> \o all \o << ")" >> \o Toks(t.body) \o << ")" >>

(* ---- the machine: stack items are records [i |-> kind, ...]; st = [lets, undo] ---- *)
IOpen(c)   == [i |-> "open", lets |-> c]               \* c = number of let bindings to pop when this scope closes
ILet(p)    == [i |-> "let", parens |-> p]
IMissing   == [i |-> "missing"]                          \* as found: `(let (( n v )` with the binding already pushed
IBind(bs)  == [i |-> "bind", bs |-> bs]                  \* repaired: bindings read so far, not yet in scope
IExpr(e)   == [i |-> "expr", e |-> e]
ISym(n)    == [i |-> "sym", n |-> n]
Get(st, n) == IF n \in DOMAIN st.lets THEN st.lets[n] ELSE IF n \in Decl THEN [k |-> "sym", n |-> n] ELSE ERR
PushLet(st, n, e) ==
  [lets |-> [nm \in DOMAIN st.lets \cup {n} |-> IF nm = n THEN e ELSE st.lets[nm]],
   undo |-> Append(st.undo, IF n \in DOMAIN st.lets THEN [op |-> "replace", n |-> n, e |-> st.lets[n]] ELSE [op |-> "remove", n |-> n])]
PopLet(st) ==
  LET u == st.undo[Len(st.undo)] IN
  [lets |-> IF u.op = "remove" THEN [nm \in DOMAIN st.lets \ {u.n} |-> st.lets[nm]]
            ELSE [nm \in DOMAIN st.lets \cup {u.n} |-> IF nm = u.n THEN u.e ELSE st.lets[nm]],
   undo |-> SubSeq(st.undo, 1, Len(st.undo) - 1)]
RECURSIVE PopN(_, _)
PopN(st, c) == IF c = 0 THEN st ELSE PopN(PopLet(st), c - 1)
RECURSIVE PushAll(_, _, _)
PushAll(st, bs, j) == IF j > Len(bs) THEN st ELSE PushAll(PushLet(st, bs[j].n, bs[j].e), bs, j + 1)
\* early_parse_single_token: literals, `let`, a known symbol (unless the token is the name of a new binding), else Sym
Single(st, tok, lookup) ==
  CASE tok = "c0" -> IExpr(C(0))
    [] tok = "c1" -> IExpr(C(1))
    [] tok = "let" -> ILet(0)
    [] OTHER -> IF lookup /\ Get(st, tok) # ERR THEN IExpr(Get(st, tok)) ELSE ISym(tok)
\* expr(st, item): an item used as an operand must be an expression, or a symbol the table knows
AsExpr(st, it) == IF it.i = "expr" THEN it.e ELSE IF it.i = "sym" THEN Get(st, it.n) ELSE ERR
\* parse_pattern on the items after the closest Open; returns [ok, item, st]
Pattern(st, pat) ==
  IF Len(pat) = 1 /\ pat[1].i = "expr" THEN [ok |-> TRUE, item |-> pat[1], st |-> st]
  ELSE IF Len(pat) = 3 /\ pat[1] = ISym("f") THEN
       LET p == AsExpr(st, pat[2]) q == AsExpr(st, pat[3]) IN
       IF p = ERR \/ q = ERR THEN [ok |-> FALSE, item |-> IMissing, st |-> st] ELSE [ok |-> TRUE, item |-> IExpr(F(p, q)), st |-> st]
  ELSE IF Len(pat) = 3 /\ pat[1] = ILet(2) /\ pat[2].i = "sym" /\ pat[3].i = "expr" THEN
       (IF Repaired THEN [ok |-> TRUE, item |-> IBind(<< [n |-> pat[2].n, e |-> pat[3].e] >>), st |-> st]
        ELSE [ok |-> TRUE, item |-> IMissing, st |-> PushLet(st, pat[2].n, pat[3].e)])
  ELSE [ok |-> FALSE, item |-> IMissing, st |-> st]
LastOpen(stack) == IF \E p \in 1..Len(stack) : stack[p].i = "open"
                   THEN CHOOSE p \in 1..Len(stack) : stack[p].i = "open" /\ \A q \in (p+1)..Len(stack) : stack[q].i # "open" ELSE 0
\* one token; m = [stack, st, res, val] with res = "run" | "err" | "done" (then val is the returned expression)
Step(m, tok) ==
  IF m.res # "run" THEN m
  ELSE
  LET stack == m.stack
      n     == Len(stack)
      top   == IF n > 0 THEN stack[n] ELSE IMissing
      more  == Repaired /\ n >= 4 /\ stack[n-3].i = "bind" /\ stack[n-2] = ILet(2) /\ stack[n-1].i = "sym" /\ stack[n].i = "expr"
      m2 == CASE tok = "(" ->
                   IF n > 0 /\ top.i = "let" THEN [m EXCEPT !.stack = SubSeq(stack, 1, n - 1) \o << ILet(top.parens + 1) >>]
                   ELSE IF n > 0 /\ top.i = "bind" THEN [m EXCEPT !.stack = Append(stack, ILet(2))]      \* another binding of the same let
                   ELSE [m EXCEPT !.stack = Append(stack, IOpen(0))]
             [] tok = ")" ->
                   IF n > 0 /\ top.i = "missing" THEN [m EXCEPT !.stack = SubSeq(stack, 1, n - 1) \o << IOpen(1) >>]
                   ELSE IF n > 0 /\ top.i = "bind"
                        THEN [m EXCEPT !.stack = SubSeq(stack, 1, n - 1) \o << IOpen(Len(top.bs)) >>, !.st = PushAll(m.st, top.bs, 1)]
                   ELSE IF more
                        THEN [m EXCEPT !.stack = SubSeq(stack, 1, n - 4) \o << IBind(Append(stack[n-3].bs, [n |-> stack[n-1].n, e |-> stack[n].e])) >>]
                   ELSE LET p == LastOpen(stack) IN
                        IF p = 0 THEN [m EXCEPT !.res = "err"]            \* orphan ")": an error at the next token or at the end
                        ELSE LET r == Pattern(m.st, SubSeq(stack, p + 1, n)) IN
                             IF ~r.ok THEN [m EXCEPT !.res = "err"]
                             ELSE [stack |-> Append(SubSeq(stack, 1, p - 1), r.item),
                                   st |-> PopN(r.st, stack[p].lets), res |-> "run", val |-> ERR]
             [] OTHER -> [m EXCEPT !.stack = Append(stack, Single(m.st, tok, ~(n > 0 /\ top = ILet(2))))]
  IN  IF m2.res = "run" /\ Len(m2.stack) = 1 /\ m2.stack[1].i = "expr" THEN [m2 EXCEPT !.res = "done", !.val = m2.stack[1].e] ELSE m2
RECURSIVE Run(_, _, _)
Run(m, toks, i) == IF i > Len(toks) THEN m ELSE Run(Step(m, toks[i]), toks, i + 1)
Machine(toks) ==
  LET m == Run([stack |-> <<>>, st |-> [lets |-> [nm \in {} |-> ERR], undo |-> <<>>], res |-> "run", val |-> ERR], toks, 1)
  IN  IF m.res = "done" THEN m.val ELSE ERR                  \* end of input without a result: error

VARIABLE tm
Init == tm \in T2
Next == UNCHANGED tm
Agree    == HasMulti(tm) \/ Machine(Toks(tm)) = Ref(tm, TopEnv)
MultiErr == (~Repaired /\ HasMulti(tm)) => Machine(Toks(tm)) = ERR
AgreeAll == Repaired => Machine(Toks(tm)) = Ref(tm, TopEnv)
Emit     == PrintT(<<"PV", ToJson(tm)>>)
=============================================================================
