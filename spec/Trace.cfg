INIT Init
NEXT Next
INVARIANT Inv
CHECK_DEADLOCK FALSE
