--------------------------------- MODULE Bmc ---------------------------------
(* Design-level model of patronus::mc::bmc (mc/bmc.rs:22-101) over an explicit finite system; the solver
   is exact: a query "bad at step k" is satisfiable iff some execution of exactly k steps ends in a bad
   state.  Two checking modes: all bad states jointly, or one query per bad state.                  *)
EXTENDS Naturals, Sequences, FiniteSets, TLC
CONSTANTS NS, KMax
S == 0..(NS - 1)
VARIABLES I, T, Bads,        \* the system: initial states, transitions, a sequence of bad-state sets
          mode, k, frontier, pc, res, failed
vars == <<I, T, Bads, mode, k, frontier, pc, res, failed>>
Img(X) == { t \in S : \E s \in X : <<s, t>> \in T }
Init == /\ I \in SUBSET S \ {{}} /\ T \in SUBSET (S \X S)
        /\ Bads \in { <<b>> : b \in SUBSET S } \cup { <<b1, b2>> : b1 \in {{0}, {}}, b2 \in SUBSET S }
        /\ mode \in {"joint", "individual"}
        /\ k = 0 /\ frontier = I /\ pc = "check" /\ res = "none" /\ failed = {}       \* frontier = states after exactly k steps (init_at(0))
HoldAt(X) == { i \in 1..Len(Bads) : X \cap Bads[i] # {} }
\* one iteration of `for k in 0..=k_max`: check, then unroll
Check == /\ pc = "check"
         /\ IF HoldAt(frontier) # {}
            THEN \* Sat: get_witness evaluates EVERY bad state in the model the solver returned; the solver picks one end state
                 \E i \in (IF mode = "joint" THEN HoldAt(frontier) ELSE { CHOOSE j \in HoldAt(frontier) : \A j2 \in HoldAt(frontier) : j <= j2 }) :
                   \E s \in frontier \cap Bads[i] :
                     /\ failed' = { j \in 1..Len(Bads) : s \in Bads[j] } /\ res' = "Fail" /\ pc' = "done" /\ UNCHANGED <<k, frontier>>
            ELSE IF k = KMax THEN res' = "Success" /\ pc' = "done" /\ UNCHANGED <<k, frontier, failed>>
            ELSE frontier' = Img(frontier) /\ k' = k + 1 /\ UNCHANGED <<pc, res, failed>>
         /\ UNCHANGED <<I, T, Bads, mode>>
Done == pc = "done" /\ UNCHANGED vars
Next == Check \/ Done
Spec == Init /\ [][Next]_vars /\ WF_vars(Next)
RECURSIVE Exactly(_)
Exactly(j) == IF j = 0 THEN I ELSE Img(Exactly(j - 1))
BadWithin(n) == \E j \in 0..n : \E i \in 1..Len(Bads) : Exactly(j) \cap Bads[i] # {}
VerdictExact == pc = "done" => (res = "Fail") = BadWithin(KMax)                         \* C02
WitnessOK == res = "Fail" => /\ failed # {}                                           \* C03: failed = exactly the bad states that hold
                            /\ \E s \in Exactly(k) : failed = { j \in 1..Len(Bads) : s \in Bads[j] }
Terminates == <>(pc = "done")
=============================================================================
