------------------------------- MODULE Interner -------------------------------
(* (M)+(G) Design-level model of the hash-consing store of expr/context.rs: an append-only indexed set.
   Build(n) returns the index of n if present, else appends.  Builder normalisations (full-width slice,
   extension by 0) return the operand itself.  true/false are the two first entries.
   Invariants: no two indices hold the same node (canonical), an index once returned keeps denoting the same
   node (stable), true/false never move.  Every behaviour of MaxCalls calls is emitted for replay on the
   real Context (args are given as history positions, so the replay is independent of index numbering). *)
EXTENDS Integers, Sequences, FiniteSets, TLC, Json
CONSTANT MaxCalls
VARIABLES exprs, hist
N(op, v, a) == [op |-> op, v |-> v, a |-> a]
LitF == N("lit1", 0, <<>>)   LitT == N("lit1", 1, <<>>)
Init == exprs = <<LitF, LitT>> /\ hist = <<>>
IndexOf(n) == CHOOSE i \in 1..Len(exprs) : exprs[i] = n
Present(n) == \E i \in 1..Len(exprs) : exprs[i] = n
\* width of a node (symbols x, y and literals "lit2" have width 2; lit1, comparisons width 1)
RECURSIVE W(_)
W(i) == LET n == exprs[i] IN
        CASE n.op \in {"lit1", "eq"} -> 1
          [] n.op \in {"sym", "lit2"} -> 2
          [] n.op \in {"not", "and"} -> W(n.a[1])
          [] n.op = "concat" -> W(n.a[1]) + W(n.a[2])
          [] n.op = "slice" -> 1
          [] OTHER -> 2
Refs == 1..Len(exprs)
Pos(r) == IF r = 1 THEN -1 ELSE IF r = 2 THEN -2
          ELSE CHOOSE p \in 1..Len(hist) : hist[p].ref = r /\ \A q \in 1..(p-1) : hist[q].ref # r
Do(call, args, n, direct) ==      \* direct # 0: the builder returns that operand unchanged
  /\ Len(hist) < MaxCalls
  /\ LET ref == IF direct # 0 THEN direct ELSE IF Present(n) THEN IndexOf(n) ELSE Len(exprs) + 1 IN
     /\ exprs' = IF direct = 0 /\ ~Present(n) THEN Append(exprs, n) ELSE exprs
     /\ hist' = Append(hist, [call |-> call, args |-> [i \in 1..Len(args) |-> Pos(args[i])], ref |-> ref])
Next ==
  \/ \E s \in {"x", "y"} : Do("sym_" \o s, <<>>, N("sym", s, <<>>), 0)
  \/ \E v \in 0..3 : Do("lit2_" \o ToString(v), <<>>, N("lit2", v, <<>>), 0)
  \/ \E v \in 0..1 : Do("lit1_" \o ToString(v), <<>>, N("lit1", v, <<>>), 0)
  \/ \E r \in Refs : Do("not", <<r>>, N("not", 0, <<r>>), 0)
  \/ \E r \in Refs : \E q \in Refs : W(r) = W(q) /\ Do("and", <<r, q>>, N("and", 0, <<r, q>>), 0)
  \/ \E r \in Refs : \E q \in Refs : W(r) = W(q) /\ Do("eq", <<r, q>>, N("eq", 0, <<r, q>>), 0)
  \/ \E r \in Refs : W(r) = 2 /\ Do("slice_full", <<r>>, N("slice", 0, <<r>>), r)
  \/ \E r \in Refs : W(r) = 2 /\ Do("slice_0", <<r>>, N("slice", 0, <<r>>), 0)
  \/ \E r \in Refs : Do("zext_0", <<r>>, N("zext", 0, <<r>>), r)
Canonical == \A i, j \in 1..Len(exprs) : exprs[i] = exprs[j] => i = j
ConstsFixed == exprs[1] = LitF /\ exprs[2] = LitT
\* stability is an action property: entries never change, the store only grows
Stable == [][Len(exprs') >= Len(exprs) /\ \A i \in 1..Len(exprs) : exprs'[i] = exprs[i]]_<<exprs, hist>>
Spec == Init /\ [][Next]_<<exprs, hist>>
\* every later call with the same (call, resolved args) returned the same ref; different nodes, different refs
SameCallSameRef == \A p, q \in 1..Len(hist) : (hist[p].call = hist[q].call /\ hist[p].args = hist[q].args) => hist[p].ref = hist[q].ref
Emit == Len(hist) = MaxCalls => PrintT(<<"PV", ToJson([calls |-> [i \in 1..Len(hist) |-> [call |-> hist[i].call, args |-> hist[i].args]]])>>)
=============================================================================
