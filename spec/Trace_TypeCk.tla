---------------------------- MODULE Trace_TypeCk ----------------------------
(* (V) extra coverage, expr/types.rs: for a node the builders produced (exported as a node table), TypeCheck::type_check
   must accept it exactly when the typing of Expr.tla gives it a type, and then report that type; get_type must agree
   on accepted nodes.  Builder panics are not judged here (C18 classifies those that are reachable from btor2). *)
EXTENDS Expr, Json, IOUtils
Rec == ndJsonDeserialize(IOEnv.TRACE)
VARIABLE l
Init == l = 1
Next == l <= Len(Rec) /\ l' = l + 1
TJ(j) == IF j.k = "bv" THEN BVT(j.w) ELSE ArrT(j.iw, j.dw)
(* what the builder must have built for a descriptor: the operator asked for (equality / if-then-else pick their
   array form by the operand kind), with the attributes asked for - except that a slice of the full width and an
   extension by zero bits return the operand itself.  SmtWriter.tla's BuilderInvariant rests on that exception. *)
NoOp(x) == \/ x.op \in {"zext", "sext"} /\ x.by = 0
           \/ x.op = "slice" /\ x.lo = 0 /\ x.ts[1].k = "bv" /\ x.hi + 1 = x.ts[1].w
ExpOp(x) == IF x.op = "eq" /\ x.ts[1].k = "arr" THEN "arreq"
            ELSE IF x.op = "ite" /\ x.ts[2].k = "arr" THEN "arrite" ELSE x.op
Built(r) ==
  LET n == r.nodes[r.root] IN
  IF NoOp(r.d) THEN IsSym(n)
  ELSE /\ n.op = ExpOp(r.d) /\ Len(n.a) = Len(r.d.ts)
       /\ (r.d.op \in {"zext", "sext"} => n.by = r.d.by)
       /\ (r.d.op = "slice" => n.hi = r.d.hi /\ n.lo = r.d.lo)
       /\ (r.d.op = "arrconst" => n.iw = r.d.by + 1)
       /\ \A j \in 1..Len(n.a) : IsSym(r.nodes[n.a[j]]) /\ r.nodes[n.a[j]].name = <<"s0", "s1", "s2">>[j]
Why(r) ==
  IF r.tc = "panic" THEN "ok"
  ELSE IF ~Built(r) THEN "the builder did not build the node that was asked for"
  ELSE LET ty == TypesAll(r.nodes)[r.root] IN
       IF r.tc = "ok" THEN (IF ty = BAD THEN "type_check accepted an ill-typed node"
                            ELSE IF TJ(r.t) # ty THEN "type_check reported the wrong type"
                            ELSE IF TJ(r.gt) # ty THEN "get_type disagrees with type_check on a well-typed node"
                            ELSE "ok")
       ELSE IF ty # BAD THEN "type_check rejected a well-typed node" ELSE "ok"
Inv == l <= Len(Rec) => LET w == Why(Rec[l]) IN
         IF w = "ok" THEN TRUE ELSE PrintT(<<"PV", ToJson([k |-> "reject", l |-> l, id |-> Rec[l].id, why |-> w])>>)
=============================================================================
