---------------------------- MODULE Trace_TypeCk ----------------------------
(* (V) extra coverage, expr/types.rs: for a node the builders produced (exported as a node table), TypeCheck::type_check
   must accept it exactly when the typing of Expr.tla gives it a type, and then report that type; get_type must agree
   on accepted nodes.  Builder panics are not judged here (C18 classifies those that are reachable from btor2). *)
EXTENDS Expr, Json, IOUtils
Rec == ndJsonDeserialize(IOEnv.TRACE)
VARIABLE l
Init == l = 1
Next == l <= Len(Rec) /\ l' = l + 1
TJ(j) == IF j.k = "bv" THEN BVT(j.w) ELSE ArrT(j.iw, j.dw)
Why(r) ==
  IF r.tc = "panic" THEN "ok"
  ELSE LET ty == TypesAll(r.nodes)[r.root] IN
       IF r.tc = "ok" THEN (IF ty = BAD THEN "type_check accepted an ill-typed node"
                            ELSE IF TJ(r.t) # ty THEN "type_check reported the wrong type"
                            ELSE IF TJ(r.gt) # ty THEN "get_type disagrees with type_check on a well-typed node"
                            ELSE "ok")
       ELSE IF ty # BAD THEN "type_check rejected a well-typed node" ELSE "ok"
Inv == l <= Len(Rec) => LET w == Why(Rec[l]) IN
         IF w = "ok" THEN TRUE ELSE PrintT(<<"PV", ToJson([k |-> "reject", l |-> l, id |-> Rec[l].id, why |-> w])>>)
=============================================================================
