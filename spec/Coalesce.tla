---- MODULE Coalesce ----
(* Design-level model of coalesce_entries + delete_entries (value_summary.rs:214-235, 350-365).
   Guards are sets of valuations; a summary is a sequence of <<guard, value>>. *)
EXTENDS Naturals, Sequences, FiniteSets, SequencesExt, TLC, Json
CONSTANTS Vals, NV,         \* value domain, number of valuations
          SortDeleteList    \* TRUE: the delete list is sorted before delete_entries (the repaired code)
Valu == 1..NV
\* all ordered partitions of Valu into n non-empty blocks with a value each
Summaries(n) == { s \in [1..n -> (SUBSET Valu \ {{}}) \X Vals] :
                    /\ \A i, j \in 1..n : i # j => s[i][1] \cap s[j][1] = {}
                    /\ UNION { s[i][1] : i \in 1..n } = Valu }
Partition(s) == /\ \A i, j \in 1..Len(s) : i # j => s[i][1] \cap s[j][1] = {}
                /\ UNION { s[i][1] : i \in 1..Len(s) } = Valu
Denote(s, v) == LET i == CHOOSE i \in 1..Len(s) : v \in s[i][1] IN s[i][2]
\* coalesce_entries: by_value map value -> last index; delete_list in discovery order
CoalesceLoop(s) ==
  FoldLeft(LAMBDA st, ii :
             LET entries == st[1] byv == st[2] del == st[3] e == entries[ii] IN
             IF e[2] \in DOMAIN byv
             THEN LET p == byv[e[2]] IN
                  << [entries EXCEPT ![ii] = << entries[p][1] \cup e[1], e[2] >>],
                     [x \in DOMAIN byv |-> IF x = e[2] THEN ii ELSE byv[x]],
                     Append(del, p) >>
             ELSE << entries, [x \in DOMAIN byv \cup {e[2]} |-> IF x = e[2] THEN ii ELSE byv[x]], del >>,
           << s, [x \in {} |-> 0], <<>> >>, [i \in 1..Len(s) |-> i])
\* delete_entries: retain with a peekable iterator over the delete list (consumed only on match)
DeleteEntries(del, entries) ==
  FoldLeft(LAMBDA st, idx :
             LET kept == st[1] pos == st[2] IN
             IF pos <= Len(del) /\ del[pos] = idx - 1      \* Rust indices are 0-based
             THEN << kept, pos + 1 >>
             ELSE << Append(kept, entries[idx]), pos >>,
           << <<>>, 1 >>, [i \in 1..Len(entries) |-> i])[1]
Coalesce(s) == LET r   == CoalesceLoop(s)
                   del == [j \in 1..Len(r[3]) |-> r[3][j] - 1]
               IN DeleteEntries(IF SortDeleteList THEN SortSeq(del, LAMBDA x, y : x < y) ELSE del, r[1])
VARIABLES s, out
Init == s \in UNION { Summaries(n) : n \in 1..4 } /\ out = Coalesce(s)
Next == UNCHANGED <<s, out>>
Ok == /\ Partition(out)
      /\ \A v \in Valu : Denote(out, v) = Denote(s, v)
      /\ \A i, j \in 1..Len(out) : i # j => out[i][2] # out[j][2]
\* (G) every summary explored by the model is emitted: blocks as sorted sequences of valuations, with their values
Emit == PrintT(<<"PV", ToJson([s |-> [i \in 1..Len(s) |-> << SetToSortSeq(s[i][1], LAMBDA x, y : x < y), s[i][2] >>]])>>)
====
