---------------------------- MODULE Trace_C01 ----------------------------
(* (V) C01: what the real simplifier returned (simplify_single_expression, Simplifier::simplify with sparse
   and dense caches incl. re-simplification, system::transform::simplify_expressions) is accepted iff the
   result has the same type as the input, is well-typed throughout, and has the same value under every
   assignment (exhaustive up to MaxExhBits symbol bits, corner + seeded random assignments above).
   Every (key, value) entry of the simplifier's cache must satisfy the same relation.
   Record: [id, nodes (one table for input, results and cache entries), root, outs, cache]. *)
EXTENDS Envs, Json, IOUtils
Rec == ndJsonDeserialize(IOEnv.TRACE)
VARIABLE l
Init == l = 1
Next == l <= Len(Rec) /\ l' = l + 1

OutRoots(r) == UNION { { r.outs[i].roots[j] : j \in 1..Len(r.outs[i].roots) } : i \in 1..Len(r.outs) }
Pairs(r)    == { <<r.root, o>> : o \in OutRoots(r) }
CPairs(r)   == { <<r.cache[i][1], r.cache[i][2]>> : i \in 1..Len(r.cache) }
Judge(r) ==
  LET ts == TypesAll(r.nodes) IN
  IF ts[r.root] = BAD THEN {"harness: ill-typed input"}
  ELSE IF ~NamesUnambiguous(r.nodes) THEN {"harness: ambiguous names"}
  ELSE
    LET ss    == SymSeq(r.nodes)
        envs  == EnvsFor(ss, l, 12)
        all   == Pairs(r) \cup CPairs(r)
        illty == { p \in all : ts[p[2]] = BAD }
        tydif == { p \in all : ts[p[2]] # BAD /\ ts[p[1]] # BAD /\ ts[p[2]] # ts[p[1]] }
        cand  == { p \in all : ts[p[1]] # BAD /\ ts[p[2]] = ts[p[1]] /\ p[1] # p[2] }
        differ == IF cand = {} THEN {}
                  ELSE UNION { LET v == EvalAll(r.nodes, env) IN { p \in cand : ~ValEq(ts[p[1]], v[p[1]], v[p[2]]) } : env \in envs }
    IN  (IF \E i \in 1..Len(r.outs) : r.outs[i].kind = "panic" THEN {"panic"} ELSE {})
        \cup (IF \E i \in 1..Len(r.outs) : r.outs[i].kind \notin {"ok", "panic"} THEN {"no result"} ELSE {})
        \cup (IF illty \cap Pairs(r) # {} THEN {"result is not well-typed"} ELSE {})
        \cup (IF tydif \cap Pairs(r) # {} THEN {"result has a different type"} ELSE {})
        \cup (IF differ \cap Pairs(r) # {} THEN {"value"} ELSE {})
        \cup (IF (illty \cup tydif) \cap (CPairs(r) \ Pairs(r)) # {} THEN {"cache entry changes the type"} ELSE {})
        \cup (IF differ \cap (CPairs(r) \ Pairs(r)) # {} THEN {"cache entry changes the value"} ELSE {})
PanicLoc(r) == LET ps == { i \in 1..Len(r.outs) : r.outs[i].kind = "panic" } IN
               IF ps = {} THEN "" ELSE r.outs[CHOOSE i \in ps : \A j \in ps : i <= j].loc
Report(r, js) == \A j \in js :
  PrintT(<<"PV", ToJson([k |-> "reject", l |-> l, id |-> r.id, why |-> j, loc |-> IF j = "panic" THEN PanicLoc(r) ELSE ""])>>)
Inv == l <= Len(Rec) => Report(Rec[l], Judge(Rec[l]))
=============================================================================
