---------------------------- MODULE Trace_C16 ----------------------------
(* (V) C16: reading back what the witness printer wrote yields equal witnesses: same failed properties,
   same names, same bit-vector values, same array contents at every recorded index, a value for every input
   at every step; the k-th witness read is the k-th written (exactly parse_max of them).
   Record: [id, kind, loc, parse_max, written, read]; a witness is
   [failed, init_names, input_names, init = <<[t, bits, ents]>>, inputs = <<step: <<bits>>>>]. *)
EXTENDS Naturals, Sequences, FiniteSets, TLC, Json, IOUtils
Rec == ndJsonDeserialize(IOEnv.TRACE)
VARIABLE l
Init == l = 1
Next == l <= Len(Rec) /\ l' = l + 1
\* array contents "at every recorded index": the last entry for an index wins
Lookup(ents, i) == LET ps == { p \in 1..Len(ents) : ents[p][1] = i } IN ents[CHOOSE p \in ps : \A q \in ps : q <= p][2]
Indices(ents) == { ents[p][1] : p \in 1..Len(ents) }
InitEq(a, b) == /\ a.t = b.t
                /\ (a.t = "bv" => a.bits = b.bits)
                /\ (a.t = "arr" => Indices(a.ents) = Indices(b.ents) /\ \A i \in Indices(a.ents) : Lookup(a.ents, i) = Lookup(b.ents, i))
WitWhy(a, b) ==
  IF a.failed # b.failed THEN "failed properties differ"
  ELSE IF a.init_names # b.init_names \/ a.input_names # b.input_names THEN "names differ"
  ELSE IF Len(a.init) # Len(b.init) THEN "number of initial values differs"
  ELSE IF \E i \in 1..Len(a.init) : ~InitEq(a.init[i], b.init[i]) THEN "an initial value differs"
  ELSE IF a.inputs # b.inputs THEN "input values differ"
  ELSE "ok"
Why(r) ==
  IF r.kind = "panic" THEN "panic"
  ELSE IF r.kind # "ok" THEN "reader reported an error"
  ELSE IF Len(r.read) # r.parse_max THEN "number of witnesses read"
  ELSE LET bad == { k \in 1..r.parse_max : WitWhy(r.written[k], r.read[k]) # "ok" } IN
       IF bad = {} THEN "ok" ELSE WitWhy(r.written[CHOOSE k \in bad : \A j \in bad : k <= j], r.read[CHOOSE k \in bad : \A j \in bad : k <= j])
Inv == l <= Len(Rec) => LET w == Why(Rec[l]) IN
         IF w = "ok" THEN TRUE ELSE PrintT(<<"PV", ToJson([k |-> "reject", l |-> l, id |-> Rec[l].id, why |-> w, loc |-> Rec[l].loc])>>)
=============================================================================
