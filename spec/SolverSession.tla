--------------------------- MODULE SolverSession ---------------------------
(* Design-level model of SmtLibSolverCtx::read_response / read_sat_response (solver.rs:252-301)
   for one response-bearing command, with solver-side faults.
   A reply is a sequence of lines; a line is abstracted to [open, close, kind, len]:
   number of '(' and ')', what it starts with, and (for error replies) the length of the message
   text between "(error " and the final ")".                                                   *)
EXTENDS Naturals, Sequences, TLC
CONSTANTS MaxLen,
          Repaired      \* TRUE: the code after the two C15 repairs (EOF check in the balancing loop, message slicing); FALSE: as found
Line(o, c, k, n) == [open |-> o, close |-> c, kind |-> k, len |-> n]
Replies ==                                       \* what the solver may put on its stdout before EOF
  {  << Line(0, 0, "sat", 0) >>,                              \* healthy
     << Line(0, 0, "unsat", 0) >>,
     << Line(0, 0, "unknown", 0) >>,                          \* fault: unknown
     << Line(0, 0, "empty", 0) >>,                            \* fault: empty line
     << Line(0, 0, "garbage", 0) >>,                          \* fault: garbage
     << >>,                                                   \* fault: exit without reply
     << Line(2, 1, "value", 0) >>,                            \* fault: truncated get-value style reply, then exit
     << Line(1, 0, "error", 3) >> }                           \* fault: truncated error reply, then exit
  \cup { << Line(1, 1, "error", n) >> : n \in 0..MaxLen }    \* fault: complete error reply of any length
VARIABLES reply, pos, resp, pc, outcome
vars == <<reply, pos, resp, pc, outcome>>
\* resp accumulates [open, close, kind, len] of everything read so far
Init == /\ reply \in Replies /\ pos = 1 /\ resp = Line(0, 0, "none", 0) /\ pc = "first" /\ outcome = "none"
ReadLine == IF pos <= Len(reply) THEN reply[pos] ELSE Line(0, 0, "eof", 0)      \* read_line returns Ok(0) at EOF
Merge(r, ln) == [open |-> r.open + ln.open, close |-> r.close + ln.close,
                 kind |-> IF r.kind = "none" THEN ln.kind ELSE r.kind, len |-> r.len + ln.len]
First == /\ pc = "first" /\ resp' = Merge(resp, ReadLine) /\ pos' = pos + 1 /\ pc' = "balance" /\ UNCHANGED <<reply, outcome>>
\* while count_parens(response) > 0 { response.push(' '); read_line(..) }
\* as found: no EOF check (the loop spins at end of stream); repaired: end of stream => Err(SolverDead)
Balance == /\ pc = "balance"
           /\ IF resp.open > resp.close
              THEN IF Repaired /\ pos > Len(reply)
                   THEN resp' = resp /\ pos' = pos /\ pc' = "done" /\ outcome' = "Err(solver dead)"
                   ELSE resp' = Merge(resp, ReadLine) /\ pos' = (IF pos <= Len(reply) THEN pos + 1 ELSE pos) /\ pc' = "balance" /\ outcome' = outcome
              ELSE resp' = resp /\ pos' = pos /\ pc' = "classify" /\ outcome' = outcome
           /\ UNCHANGED reply
\* trimmed = "(error " ++ msg ++ ")": len = 7 + n + 1; slice [7 .. len - 7 - 1) = [7 .. n + 1)
Classify == /\ pc = "classify" /\ pc' = "done"
            /\ outcome' = CASE resp.kind = "error" /\ Repaired -> "Err(message intact)"
                            [] resp.kind = "error" -> (IF 7 > resp.len + 1 THEN "PANIC slice start > end"
                                                       ELSE IF resp.len + 1 - 7 = resp.len THEN "Err(message intact)"
                                                       ELSE "Err(message mangled)")
                            [] resp.kind = "sat" -> "Ok(Sat)"
                            [] resp.kind = "unsat" -> "Ok(Unsat)"
                            [] OTHER -> "Err(unexpected response)"
            /\ UNCHANGED <<reply, pos, resp>>
Done == pc = "done" /\ UNCHANGED vars
Next == First \/ Balance \/ Classify \/ Done
Spec == Init /\ [][Next]_vars /\ WF_vars(Next)
Healthy == reply \in { << Line(0, 0, "sat", 0) >>, << Line(0, 0, "unsat", 0) >> }
\* C15 at design level
NoVerdictOnFault == pc = "done" /\ ~Healthy => outcome \notin {"Ok(Sat)", "Ok(Unsat)"}
NoPanic          == outcome # "PANIC slice start > end"
Unmangled        == outcome # "Err(message mangled)"
Terminates       == <>(pc = "done")
=============================================================================
