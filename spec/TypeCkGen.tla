---------------------------- MODULE TypeCkGen ----------------------------
(* (G) extra coverage, expr/types.rs: every operator applied to leaves of every combination of kinds and widths
   (well-typed or not), with every small attribute value.  One TLC state per descriptor; the harness builds the
   node through the public builders (release semantics: debug assertions off) and records what type_check says. *)
EXTENDS Expr, Json, TLC
VARIABLE d
LeafTypes == { BVT(1), BVT(2), BVT(3), ArrT(1, 2), ArrT(2, 2), ArrT(1, 1), ArrT(2, 1) }
Op1 == {"not", "neg"}
Op2 == {"and", "or", "xor", "add", "sub", "mul", "udiv", "sdiv", "smod", "srem", "urem", "shl", "lshr", "ashr",
        "eq", "implies", "ugt", "uge", "sgt", "sge", "concat", "read"}
Op3 == {"ite", "store"}
D(op, ts, by, hi, lo) == [op |-> op, ts |-> ts, by |-> by, hi |-> hi, lo |-> lo]
Descr == { D(op, <<t>>, 0, 0, 0) : op \in Op1, t \in LeafTypes }
    \cup { D(op, <<t>>, by, 0, 0) : op \in {"zext", "sext", "arrconst"}, t \in LeafTypes, by \in 0..2 }
    \cup { D("slice", <<t>>, 0, hi, lo) : t \in LeafTypes, hi \in 0..3, lo \in 0..3 }
    \cup { D(op, <<t1, t2>>, 0, 0, 0) : op \in Op2, t1 \in LeafTypes, t2 \in LeafTypes }
    \cup { D(op, <<t1, t2, t3>>, 0, 0, 0) : op \in Op3, t1 \in LeafTypes, t2 \in LeafTypes, t3 \in LeafTypes }
Init == d \in Descr
Next == UNCHANGED d
Emit == PrintT(<<"PV", ToJson(d)>>)
=============================================================================
