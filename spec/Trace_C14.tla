---------------------------- MODULE Trace_C14 ----------------------------
(* (V) C14, model values: text in the forms solvers print values (binary / hex literals, true / false, stores
   over constant arrays incl. Bool-indexed / Bool-valued arrays, let-bound sub-terms, extra white space) read by
   the real reader must denote exactly the generated value; malformed text (judged malformed by the harness'
   independent front end) must yield an error - never a value, a panic or a hang. *)
EXTENDS Envs, Json, IOUtils
Rec == ndJsonDeserialize(IOEnv.TRACE)
VARIABLE l
Init == l = 1
Next == l <= Len(Rec) /\ l' = l + 1
TJ(j) == IF j.k = "bv" THEN BVT(j.w) ELSE ArrT(j.iw, j.dw)
CmdWhy(r) == IF r.kind = "panic" THEN "panic"
             ELSE IF r.kind = "error" THEN "a command the writer emitted was rejected by the reader"
             ELSE IF r.read # r.written THEN "a command was read back as a different command"
             ELSE "ok"
Why(r) ==
  IF r.ev = "Cmd" THEN CmdWhy(r) ELSE
  IF r.malformed = 1 THEN (IF r.kind = "error" THEN "ok" ELSE IF r.kind = "panic" THEN "panic on malformed text" ELSE "malformed text was read as a value")
  ELSE IF r.kind = "panic" THEN "panic"
  ELSE IF r.kind = "error" THEN "well-formed model value was rejected"
  ELSE IF ~WellTyped(r.got.nodes) THEN "value read is not well-typed"
  ELSE IF TypesAll(r.got.nodes)[r.got.root] # TJ(r.t) THEN "value read has the wrong type"
  ELSE IF SymIdx(r.got.nodes) # {} THEN "value read contains symbols"
  ELSE IF ~ValEq(TJ(r.t), EvalAll(r.got.nodes, EmptyFn)[r.got.root], ValOfJson(r.want)) THEN "value read differs from the value written"
  ELSE "ok"
Inv == l <= Len(Rec) => LET w == Why(Rec[l]) IN
         IF w = "ok" THEN TRUE ELSE PrintT(<<"PV", ToJson([k |-> "reject", l |-> l, id |-> Rec[l].id, why |-> w, loc |-> Rec[l].loc, cls |-> Rec[l].cls])>>)
=============================================================================
