---------------------------- MODULE Trace_C18 ----------------------------
(* (V) C18: for arbitrary text the btor2 reader returns a system, reports failure, or - only for the operators
   it documents as unsupported - aborts.  Judged per recorded outcome:
     panic : accepted only if the message names an exempt operator that occurs in the text;
     ok    : every node of the returned system is well-typed (Expr.tla typing), states and inputs are symbols,
             init and next expressions have their state's type, bad states and constraints are one bit wide,
             outputs are well-typed, every symbol used anywhere is a declared input or state. *)
EXTENDS TSys, Json, IOUtils
Rec == ndJsonDeserialize(IOEnv.TRACE)
VARIABLE l
Init == l = 1
Next == l <= Len(Rec) /\ l' = l + 1
ExemptOf(x) == CASE x \in {"inc", "dec", "fair", "justice"} -> {x}
                 [] x = "rol/ror" -> {"rol", "ror"}
                 [] x = "overflow" -> {"saddo", "uaddo", "sdivo", "udivo", "smulo", "umulo", "ssubo", "usubo"}
                 [] OTHER -> {}
Declared(S) == { S.states[i].name : i \in 1..Len(S.states) } \cup { S.inputs[i].name : i \in 1..Len(S.inputs) }
Used(S) == { S.nodes[i].name : i \in { j \in 1..Len(S.nodes) : IsSym(S.nodes[j]) } }
SysWhy(S) ==
  LET ty == TypesAll(S.nodes) IN
  IF \E i \in 1..Len(S.nodes) : (S.nodes[i].op = "bvsym" /\ S.nodes[i].w = 0) \/ (S.nodes[i].op = "arrsym" /\ (S.nodes[i].iw = 0 \/ S.nodes[i].dw = 0))
  THEN "accepted system contains a zero-width type"
  ELSE IF \E i \in 1..Len(S.nodes) : ty[i] = BAD THEN "accepted system contains an ill-typed expression"
  ELSE IF \E i \in 1..Len(S.states) : S.states[i].is_sym # 1 \/ ty[S.states[i].sym] # TOfJson(S.states[i].t) THEN "a state is not a symbol of its type"
  ELSE IF \E i \in 1..Len(S.inputs) : S.inputs[i].is_sym # 1 \/ ty[S.inputs[i].sym] # TOfJson(S.inputs[i].t) THEN "an input is not a symbol of its type"
  ELSE IF \E i \in 1..Len(S.states) : S.states[i].init # 0 /\ ty[S.states[i].init] # TOfJson(S.states[i].t) THEN "an init expression does not have its state's type"
  ELSE IF \E i \in 1..Len(S.states) : S.states[i].next # 0 /\ ty[S.states[i].next] # TOfJson(S.states[i].t) THEN "a next expression does not have its state's type"
  ELSE IF \E i \in 1..Len(S.bads) : ty[S.bads[i]] # BVT(1) THEN "a bad state is not one bit wide"
  ELSE IF \E i \in 1..Len(S.constraints) : ty[S.constraints[i]] # BVT(1) THEN "a constraint is not one bit wide"
  ELSE IF ~(Used(S) \subseteq Declared(S)) THEN "a symbol that is neither an input nor a state is used"
  ELSE "ok"
Why(r) ==
  IF r.outcome \in {"none", "ok-unchecked"} THEN "ok"
  ELSE IF r.outcome = "abort" THEN "the reader aborted the process (stack overflow / allocation failure / abort)"
  ELSE IF r.outcome = "panic" THEN
       (IF ExemptOf(r.exempt_op) \cap { r.ops[i] : i \in 1..Len(r.ops) } # {} THEN "ok" ELSE "panic")
  ELSE SysWhy(r.sys)
Inv == l <= Len(Rec) => LET w == Why(Rec[l]) IN
         IF w = "ok" THEN TRUE ELSE PrintT(<<"PV", ToJson([k |-> "reject", l |-> l, id |-> Rec[l].id, why |-> w, loc |-> Rec[l].loc, op |-> Rec[l].fault_op])>>)
=============================================================================
