------------------------- MODULE SimplifierCache -------------------------
(* Design-level model of the rewriting driver: do_transform_expr in FixedPoint mode (expr/transform.rs:33-100),
   get_fixed_point with path update (expr/meta.rs:28-48) and the persistent cache of Simplifier
   (expr/simplify.rs:23-41), explored for EVERY rule table over a tiny term universe:
   leaves x, y and the unary terms fx = f(x), fy = f(y).                                          *)
EXTENDS Naturals, Sequences, FiniteSets, TLC
Leaves == {"x", "y"}
U      == {"x", "y", "fx", "fy"}
None   == "none"
Kid(t)   == IF t = "fx" THEN "x" ELSE IF t = "fy" THEN "y" ELSE None
Mk(c)    == IF c = "x" THEN "fx" ELSE "fy"                      \* rebuild f(c) for a leaf c
VARIABLES rule,            \* the rewrite rules: U -> U \cup {None}; leaves rewrite to leaves only
          cache,           \* Simplifier.cache: U -> U \cup {None}
          todo, root, calls, pc, result, steps
vars == <<rule, cache, todo, root, calls, pc, result, steps>>
\* ---- get_fixed_point: follow the chain; "LOOP" models the non-terminating while loop
RECURSIVE Chase(_, _, _)
Chase(m, v, fuel) == IF m[v] = None THEN None ELSE IF m[v] = v THEN v ELSE IF fuel = 0 THEN "LOOP" ELSE Chase(m, m[v], fuel - 1)
FP(m, key) == Chase(m, key, Cardinality(U) + 1)
RECURSIVE ChainSet(_, _, _)
ChainSet(m, v, fin) == IF v = fin THEN {} ELSE {v} \cup ChainSet(m, m[v], fin)
PathUpdate(m, key) == LET fin == FP(m, key) IN
                      IF fin \in U THEN [t \in U |-> IF t \in ChainSet(m, key, fin) THEN fin ELSE m[t]] ELSE m
\* ---- the reference: recursive normal form (None-free rules applied until no rule fires), with fuel
RECURSIVE Simp(_, _)
Simp(t, fuel) ==
  IF fuel = 0 THEN "DIVERGE"
  ELSE IF t \in Leaves THEN (IF rule[t] = None THEN t ELSE Simp(rule[t], fuel - 1))
  ELSE LET c == Simp(Kid(t), fuel - 1) IN
       IF c \notin U THEN c
       ELSE IF c \notin Leaves THEN "DIVERGE"                 \* cannot happen: leaves rewrite to leaves
       ELSE LET t2 == Mk(c) IN IF rule[t2] = None THEN t2 ELSE Simp(rule[t2], fuel - 1)
Ref(t) == Simp(t, 12)
Init == /\ rule \in [U -> U \cup {None}] /\ \A t1 \in Leaves : rule[t1] \in Leaves \cup {None} /\ \A t2 \in U : rule[t2] # t2
        /\ cache = [t \in U |-> None] /\ calls \in { <<a, b>> : a \in U, b \in U }
        /\ root = calls[1] /\ todo = <<calls[1]>> /\ pc = "loop" /\ result = <<>> /\ steps = 0
Top == todo[Len(todo)]
Pop == SubSeq(todo, 1, Len(todo) - 1)
Loop == /\ pc = "loop" /\ steps' = steps + 1
        /\ IF steps > 40 THEN pc' = "stuck" /\ UNCHANGED <<cache, todo, result, root>>      \* driver does not terminate
           ELSE IF todo = <<>> THEN
                LET r == FP(cache, root) IN
                /\ result' = Append(result, r) /\ cache' = PathUpdate(cache, root)
                /\ IF Len(result) + 1 < Len(calls)
                   THEN root' = calls[Len(result) + 2] /\ todo' = <<calls[Len(result) + 2]>> /\ pc' = "loop"
                   ELSE pc' = "done" /\ UNCHANGED <<root, todo>>
           ELSE LET e == Top  k == Kid(e) IN
                IF k # None /\ FP(cache, k) = None
                THEN todo' = Append(todo, k) /\ UNCHANGED <<cache, result, root, pc>>        \* child first (e stays on the stack)
                ELSE IF k # None /\ FP(cache, k) = "LOOP"
                THEN pc' = "spin" /\ UNCHANGED <<cache, todo, result, root>>                  \* get_fixed_point never returns
                ELSE LET c1  == IF k = None THEN None ELSE FP(cache, k)
                         m1  == IF k = None THEN cache ELSE PathUpdate(cache, k)
                         reb == IF k = None THEN e ELSE (IF c1 \in Leaves THEN Mk(c1) ELSE "OUT")   \* rebuilt node
                     IN IF reb = "OUT" THEN pc' = "outside" /\ UNCHANGED <<cache, todo, result, root>>
                        ELSE LET tr  == rule[reb]
                                 new == IF tr # None THEN tr ELSE reb
                                 m2  == [m1 EXCEPT ![e] = new]
                             IN /\ cache' = m2
                                /\ todo' = IF e # new /\ m2[new] = None THEN Append(Pop, new) ELSE Pop
                                /\ UNCHANGED <<result, root, pc>>
        /\ UNCHANGED <<rule, calls>>
Done == pc \in {"done", "stuck", "spin", "outside"} /\ UNCHANGED vars
Next == Loop \/ Done
\* ---- what C13 (and the driver part of C01) needs, conditional on the rules being well-founded
WellFounded == \A t \in U : Ref(t) \in U
Good == pc = "done" => /\ \A i \in 1..Len(calls) : result[i] = Ref(calls[i])              \* cache transparent, = the pure normal form
                       /\ \A i \in 1..Len(calls) : Ref(result[i]) = result[i]             \* results are normal forms
Inv == /\ (WellFounded => pc \notin {"stuck", "spin", "outside"} /\ Good)
       /\ (pc \in {"stuck", "spin"} => ~WellFounded)
Report == (pc \in {"stuck", "spin"}) => PrintT(<<"NONTERMINATING", pc, rule>>)
=============================================================================
