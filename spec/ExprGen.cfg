INIT Init
NEXT Next
CONSTANTS
  WD = 2
  Mode = "small"
INVARIANT GenWellTyped
INVARIANT Emit
CHECK_DEADLOCK FALSE
