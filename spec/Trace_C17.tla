---------------------------- MODULE Trace_C17 ----------------------------
(* (V) C17: the cones reported by the real analysis for a root are
     (kind)       inputs and states of the system only, without duplicates;
     (tight)      within syntactic reachability from the root over the node table, following the init / next
                  links of states the variant follows (full: both, init: init only, comb: none);
     (sufficient) the root's value does not depend on anything outside the cone: every execution agrees with
                  its canonical representative in which everything outside the cone is zero
                  - comb: for every current state and input valuation;
                  - init: right after initialisation, for every choice of the free initial values and inputs;
                  - full: at every step (pairs of executions explored to a fixpoint), for every choice of free
                    initial values and of inputs per step.
   A "Sys" record sets the current system; "Cone" records refer to it. *)
EXTENDS TSys, Json, IOUtils
Rec == ndJsonDeserialize(IOEnv.TRACE)
VARIABLES l, sys
Init == l = 1 /\ sys = <<>>
SetOf(seq) == { seq[i] : i \in 1..Len(seq) }
Declared(S) == { S.states[i].name : i \in 1..Len(S.states) } \cup { S.inputs[i].name : i \in 1..Len(S.inputs) }
TypeOfName(S, nm) == LET ss == SSyms(S) \o ISyms(S) IN ss[CHOOSE p \in 1..Len(ss) : ss[p].name = nm].t
ZeroVal(t) == IF t.k = "bv" THEN Zero(t.w) ELSE [iw |-> t.iw, dw |-> t.dw, def |-> Zero(t.dw), m |-> [ix \in AllBV(t.iw) |-> Zero(t.dw)]]
\* ---- syntactic reachability with init / next links
StateOfNode(S, i) == { j \in 1..Len(S.states) : S.states[j].sym = i }
Succ(S, i, fn, fi) == SetOf(S.nodes[i].a)
                      \cup UNION { (IF fi /\ S.states[j].init # 0 THEN {S.states[j].init} ELSE {})
                                   \cup (IF fn /\ S.states[j].next # 0 THEN {S.states[j].next} ELSE {}) : j \in StateOfNode(S, i) }
RECURSIVE Closure(_, _, _, _)
Closure(S, set, fn, fi) == LET nxt == set \cup UNION { Succ(S, i, fn, fi) : i \in set } IN IF nxt = set THEN set ELSE Closure(S, nxt, fn, fi)
Reach(S, root, fn, fi) == { S.nodes[i].name : i \in { j \in Closure(S, {root}, fn, fi) : IsSym(S.nodes[j]) } } \cap Declared(S)
\* ---- semantics
FreeStates(S) == { S.states[i].name : i \in { j \in 1..Len(S.states) : S.states[j].init = 0 } }
ZeroOut(S, f, cone) == [nm \in DOMAIN f |-> IF nm \in cone THEN f[nm] ELSE ZeroVal(TypeOfName(S, nm))]
RootVal(S, root, st, inp) == Vals(S, st, inp)[root]
Same(S, root, x, y) == ValEq(TypeAt(S, root), x, y)
NextSt(S, st, inp) == LET v == Vals(S, st, inp) IN
   [nm \in DOMAIN st |-> LET i == CHOOSE j \in 1..Len(S.states) : S.states[j].name = nm IN
                         IF S.states[i].next = 0 THEN st[nm] ELSE Canon(TOfJson(S.states[i].t), v[S.states[i].next])]
CombOK(S, root, cone) == \A s \in States(S) : \A i \in Inputs(S) :
        Same(S, root, RootVal(S, root, s, i), RootVal(S, root, ZeroOut(S, s, cone), ZeroOut(S, i, cone)))
\* the initial state whose free states agree with s on the cone and are zero elsewhere
InitFrom(S, s, cone) == LET base == [nm \in DOMAIN s |-> IF nm \in FreeStates(S) /\ nm \notin cone THEN ZeroVal(TypeOfName(S, nm)) ELSE s[nm]] IN
   FoldLeft(LAMBDA d, i : IF S.states[i].init = 0 THEN d
                          ELSE [d EXCEPT ![S.states[i].name] = Canon(TOfJson(S.states[i].t), Vals(S, d, AnyInput(S))[S.states[i].init])],
            base, Idx(Len(S.states)))
InitOKc(S, root, cone) == \A s \in InitStates(S) : \A i \in Inputs(S) :
        Same(S, root, RootVal(S, root, s, i), RootVal(S, root, InitFrom(S, s, cone), ZeroOut(S, i, cone)))
\* full cone: pairs (execution, canonical representative) explored to a fixpoint - exact for every depth
Step2(S, cone, P) == P \cup { <<NextSt(S, p[1], i), NextSt(S, p[2], ZeroOut(S, i, cone))>> : p \in P, i \in Inputs(S) }
RECURSIVE PairFix(_, _, _)
PairFix(S, cone, P) == LET Q == Step2(S, cone, P) IN IF Q = P THEN P ELSE PairFix(S, cone, Q)
FullOK(S, root, cone) ==
   LET P == PairFix(S, cone, { <<s, InitFrom(S, s, cone)>> : s \in InitStates(S) }) IN
   \A p \in P : \A i \in Inputs(S) : Same(S, root, RootVal(S, root, p[1], i), RootVal(S, root, p[2], ZeroOut(S, i, cone)))
NoDup(seq) == \A i, j \in 1..Len(seq) : seq[i] = seq[j] => i = j
Why(S, r) ==
  IF r.kind # "ok" THEN "panic"
  ELSE IF ~(SetOf(r.full) \subseteq Declared(S) /\ SetOf(r.init) \subseteq Declared(S) /\ SetOf(r.comb) \subseteq Declared(S)) THEN "cone contains something that is not an input or state"
  ELSE IF ~(NoDup(r.full) /\ NoDup(r.init) /\ NoDup(r.comb)) THEN "cone lists a symbol twice"
  ELSE IF ~(SetOf(r.full) \subseteq Reach(S, r.root, TRUE, TRUE)) THEN "full cone is not syntactically tight"
  ELSE IF ~(SetOf(r.init) \subseteq Reach(S, r.root, FALSE, TRUE)) THEN "init cone is not syntactically tight"
  ELSE IF ~(SetOf(r.comb) \subseteq Reach(S, r.root, FALSE, FALSE)) THEN "comb cone is not syntactically tight"
  ELSE IF ~CombOK(S, r.root, SetOf(r.comb)) THEN "comb cone is not sufficient"
  ELSE IF ~InitOKc(S, r.root, SetOf(r.init)) THEN "init cone is not sufficient"
  ELSE IF ~FullOK(S, r.root, SetOf(r.full)) THEN "full cone is not sufficient"
  ELSE "ok"
Next == /\ l <= Len(Rec)
        /\ LET r == Rec[l]  S == IF r.ev = "Sys" THEN r.sys ELSE sys
               w == IF r.ev = "Sys" THEN "ok" ELSE Why(S, r) IN
           /\ IF w = "ok" THEN TRUE ELSE PrintT(<<"PV", ToJson([k |-> "reject", l |-> l, why |-> w, root |-> r.root, loc |-> r.loc])>>)
           /\ sys' = S /\ l' = l + 1
Inv == TRUE
=============================================================================
