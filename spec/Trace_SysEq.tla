---------------------------- MODULE Trace_SysEq ----------------------------
(* (V) C09 / C11: two transition systems are compared function by function, bound BY POSITION.
   Each record carries a `before` and an `after` system (own node tables, TSys format) and
     smap  = <<position of the before-state each after-state corresponds to>>
     imap  = <<position of the before-input each after-input corresponds to>>
     zero  = <<0/1 per before-input: this input is required to be zero (replace_anonymous_inputs_with_zero)>>
     kind  = "simplify" | "replace" | "roundtrip"
   Accepted iff: the after-system has the corresponding states (same type, a symbol) and inputs, every
   symbol occurring in it is one of its states or inputs, removed inputs occur nowhere in it, and for every
   assignment (exhaustive up to MaxExhBits symbol bits, corner + random assignments above; zero-inputs fixed
   to zero) every init / next / output / bad / constraint function has the same value on both sides. *)
EXTENDS TSys, Json, IOUtils
Rec == ndJsonDeserialize(IOEnv.TRACE)
VARIABLE l
Init == l = 1
Next == l <= Len(Rec) /\ l' = l + 1
Syms(S)  == SSyms(S) \o ISyms(S)
\* names reachable from the roots of a system
Roots(S) == { S.states[i].init : i \in 1..Len(S.states) } \cup { S.states[i].next : i \in 1..Len(S.states) }
            \cup { S.outputs[i].expr : i \in 1..Len(S.outputs) } \cup { S.bads[i] : i \in 1..Len(S.bads) }
            \cup { S.constraints[i] : i \in 1..Len(S.constraints) }
UsedNames(S) == { S.nodes[i].name : i \in { j \in ReachFrom(S.nodes, Roots(S) \ {0}) : IsSym(S.nodes[j]) } }
Declared(S)  == { S.states[i].name : i \in 1..Len(S.states) } \cup { S.inputs[i].name : i \in 1..Len(S.inputs) }
ZeroOf(t) == IF t.k = "bv" THEN Zero(t.w) ELSE [iw |-> t.iw, dw |-> t.dw, def |-> Zero(t.dw), m |-> [ix \in AllBV(IF t.iw <= 4 THEN t.iw ELSE 1) |-> Zero(t.dw)]]
Shape(r) ==
  LET B == r.before  A == r.after IN
  IF Len(A.states) # Len(r.smap) \/ Len(A.inputs) # Len(r.imap) THEN "harness: maps"
  ELSE IF r.kind # "replace" /\ (Len(A.states) # Len(B.states) \/ Len(A.inputs) # Len(B.inputs)) THEN "number of states or inputs changed"
  ELSE IF Len(A.states) # Len(B.states) THEN "number of states changed"
  ELSE IF \E i \in 1..Len(A.states) : A.states[i].t # B.states[r.smap[i]].t \/ A.states[i].is_sym # 1 THEN "a state changed its type or is not a symbol"
  ELSE IF \E j \in 1..Len(A.inputs) : A.inputs[j].t # B.inputs[r.imap[j]].t \/ A.inputs[j].is_sym # 1 THEN "an input changed its type or is not a symbol"
  ELSE IF r.kind # "roundtrip" /\ \E i \in 1..Len(A.states) : A.states[i].oname # B.states[r.smap[i]].oname THEN "a state was renamed or replaced"
  ELSE IF r.kind # "roundtrip" /\ \E j \in 1..Len(A.inputs) : A.inputs[j].oname # B.inputs[r.imap[j]].oname THEN "an input was renamed or replaced"
  ELSE IF r.kind = "replace" /\ \E p \in 1..Len(B.inputs) : r.must[p] = 1 /\ r.zero[p] = 0 THEN "an anonymous input was not removed"
  ELSE IF r.kind = "replace" /\ \E p \in 1..Len(B.inputs) : r.may[p] = 0 /\ r.zero[p] = 1 THEN "a named input was removed"
  ELSE IF \E j \in 1..Len(r.imap) : r.imap[j] = 0 THEN "the result has an input the original does not have"
  ELSE IF ~(UsedNames(A) \subseteq Declared(A)) THEN "a symbol that is neither a state nor an input occurs in the result"
  ELSE IF Len(A.outputs) # Len(B.outputs) \/ Len(A.bads) # Len(B.bads) \/ Len(A.constraints) # Len(B.constraints) THEN "number of outputs, bad states or constraints changed"
  ELSE IF \E i \in 1..Len(A.outputs) : A.outputs[i].name # B.outputs[i].name THEN "an output was renamed"
  ELSE IF \E i \in 1..Len(A.states) : (A.states[i].init = 0) # (B.states[r.smap[i]].init = 0) THEN "an init expression appeared or disappeared"
  ELSE IF \E i \in 1..Len(A.states) : (A.states[i].next = 0) # (B.states[r.smap[i]].next = 0) THEN "a next expression appeared or disappeared"
  ELSE "ok"
Funs(r) ==
  LET B == r.before  A == r.after
      sb == Syms(B)
      base == IF Exhaustive(sb) THEN AllEnvs(sb) ELSE CornerEnvsN(sb, r.nenv) \cup RandEnvs(sb, l, r.nenv \div 4)
      zeroNames == { B.inputs[p].name : p \in { q \in 1..Len(B.inputs) : r.zero[q] = 1 } }
      envsB == { [nm \in DOMAIN e |-> IF nm \in zeroNames THEN ZeroOf(sb[CHOOSE p \in 1..Len(sb) : sb[p].name = nm].t) ELSE e[nm]] : e \in base }
      posB(nm) == CHOOSE p \in 1..Len(sb) : sb[p].name = nm
      EnvA(eB) == [nm \in Declared(A) |->
                     LET si == { i \in 1..Len(A.states) : A.states[i].name = nm } IN
                     IF si # {} THEN eB[B.states[r.smap[CHOOSE i \in si : TRUE]].name]
                     ELSE eB[B.inputs[r.imap[CHOOSE j \in 1..Len(A.inputs) : A.inputs[j].name = nm]].name]]
      tyB == TypesAll(B.nodes)  tyA == TypesAll(A.nodes)
      pairs == { <<B.states[r.smap[i]].init, A.states[i].init>> : i \in 1..Len(A.states) }
               \cup { <<B.states[r.smap[i]].next, A.states[i].next>> : i \in 1..Len(A.states) }
               \cup { <<B.outputs[i].expr, A.outputs[i].expr>> : i \in 1..Len(A.outputs) }
               \cup { <<B.bads[i], A.bads[i]>> : i \in 1..Len(A.bads) }
               \cup { <<B.constraints[i], A.constraints[i]>> : i \in 1..Len(A.constraints) }
      real == { p \in pairs : p[1] # 0 /\ p[2] # 0 }
  IN  IF \E p \in real : tyB[p[1]] = BAD THEN "harness: ill-typed input system"
      ELSE IF \E p \in real : tyA[p[2]] = BAD THEN "a function of the result is not well-typed"
      ELSE IF \E p \in real : tyA[p[2]] # tyB[p[1]] THEN "a function changed its type"
      ELSE IF \E eB \in envsB : LET vB == EvalAll(B.nodes, eB)  vA == EvalAll(A.nodes, EnvA(eB)) IN
                                \E p \in real : ~ValEq(tyB[p[1]], vB[p[1]], vA[p[2]])
           THEN "a function changed its value"
      ELSE "ok"
NamesWhy(r) == IF r.kindres # "ok" THEN r.kindres
                ELSE IF Len(r.first.all) # Len(r.second.all) THEN "number of names changed in the second cycle"
                ELSE IF \E p \in 1..Len(r.first.all) : r.first.explicit[p] = 1 /\ r.second.all[p] # r.first.all[p] THEN "an explicit name did not survive the second write/read cycle"
                ELSE "ok"
Why(r) == IF r.ev = "Names" THEN NamesWhy(r)
          ELSE IF r.kindres = "panic" THEN "panic"
          ELSE IF r.kindres # "ok" THEN "no result"
          ELSE LET s == Shape(r) IN IF s # "ok" THEN s ELSE Funs(r)
Inv == l <= Len(Rec) => LET w == Why(Rec[l]) IN
         IF w = "ok" THEN TRUE ELSE PrintT(<<"PV", ToJson([k |-> "reject", l |-> l, id |-> Rec[l].id, kind |-> Rec[l].kind, why |-> w, loc |-> Rec[l].loc])>>)
=============================================================================
