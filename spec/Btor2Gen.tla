---- MODULE Btor2Gen ----
(* (G): enumerate one-operator btor2 files: op x operand width x attribute x negation pattern *)
EXTENDS Btor2, Json, TLC
CONSTANT Widths
VARIABLE d
Attrs(op, w) == CASE op = "slice" -> { <<u, lo>> : u \in 0..(w-1), lo \in 0..(w-1) } \cap { p \in (0..(w-1)) \X (0..(w-1)) : p[2] <= p[1] }
                  [] op \in {"uext", "sext"} -> { <<by>> : by \in 0..2 }
                  [] OTHER -> { <<0>> }
OpArity(op) == IF op \in Unary THEN 1 ELSE IF op \in Ternary THEN 3 ELSE 2
OkWidth(op, w) == (op \in BoolBin => w = 1)
Init == d \in { [op |-> op, w |-> w, at |-> at, neg |-> ng] :
                  op \in Unary \cup Binary \cup Ternary, w \in Widths, at \in UNION { Attrs(o2, w2) : o2 \in Unary \cup Binary \cup Ternary, w2 \in Widths },
                  ng \in [1..3 -> {0, 1}] }
          /\ OkWidth(d.op, d.w) /\ d.at \in Attrs(d.op, d.w) /\ \A i \in 1..3 : i > OpArity(d.op) => d.neg[i] = 0
Next == UNCHANGED d
Emit == PrintT(<<"PV", ToJson([op |-> d.op, w |-> d.w, rw |-> ResWidth(d.op, d.w, d.at), at |-> d.at, neg |-> d.neg, ar |-> OpArity(d.op)])>>)
====

