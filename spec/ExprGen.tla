------------------------------- MODULE ExprGen -------------------------------
(* (G) Generator of well-typed expression DAGs shared by C01, C05, C06, C13, C14.
   One TLC state per expression; TLC's distinct-state search is the enumeration.
   Expressions are node tables with uniform node records (see Expr.tla).
   Mode "small": every op(K1[,K2[,K3]]) with K ranging over leaves (both symbols, ALL literals) and
                 depth-1 terms, operand width WD in 1..4.
   Mode "wide" : the same operators at a boundary width WD (8, 31..33, 63..65, 127..129) with operands
                 drawn from symbols, boundary literal shapes and (one side only) depth-1 terms.       *)
EXTENDS Expr, Json
CONSTANTS WD, Mode
VARIABLE d

N(op, w, a, nm, bits, hi, lo, by, iw, dw, ow) ==
  [op |-> op, name |-> nm, w |-> w, bits |-> bits, a |-> a, hi |-> hi, lo |-> lo, by |-> by, iw |-> iw, dw |-> dw, ow |-> ow]
NmW(base, w)   == base \o ToString(w)
SymN(base, w)  == N("bvsym", w, <<>>, NmW(base, w), <<>>, 0, 0, 0, 0, 0, 0)
ArrN(base, iw, dw) == N("arrsym", 0, <<>>, base \o ToString(iw) \o "_" \o ToString(dw), <<>>, 0, 0, 0, iw, dw, 0)
LitN(v)        == N("bvlit", Len(v), <<>>, "", v, 0, 0, 0, 0, 0, 0)
Op1(op, w, x)  == N(op, w, <<x>>, "", <<>>, 0, 0, 0, 0, 0, 0)
Op2(op, w, x, y) == N(op, w, <<x, y>>, "", <<>>, 0, 0, 0, 0, 0, 0)
Op3(op, w, x, y, z) == N(op, w, <<x, y, z>>, "", <<>>, 0, 0, 0, 0, 0, 0)
SliceN(x, hi, lo) == N("slice", 0, <<x>>, "", <<>>, hi, lo, 0, 0, 0, 0)
ExtN(op, w, x, by) == N(op, w, <<x>>, "", <<>>, 0, 0, by, 0, 0, 0)
CmpS(op, x, y, ow) == N(op, 1, <<x, y>>, "", <<>>, 0, 0, 0, 0, 0, ow)
ReadN(w, m, i) == Op2("read", w, m, i)
StoreN(m, i, x) == Op3("store", 0, m, i, x)
ConstArrN(x, iw, dw) == N("arrconst", 0, <<x>>, "", <<>>, 0, 0, 0, iw, dw, 0)

BVs(w)       == [1..w -> {0, 1}]
Pow2(w, k)   == [i \in 1..w |-> IF i = k + 1 THEN 1 ELSE 0]
NatBV(n, w)  == [i \in 1..w |-> IF i <= 20 THEN (n \div (2^(i-1))) % 2 ELSE 0]
LowMask(w, k)  == [i \in 1..w |-> IF i <= k THEN 1 ELSE 0]
HighMask(w, k) == [i \in 1..w |-> IF i > w - k THEN 1 ELSE 0]
IntervalMask(w, lo, hi) == [i \in 1..w |-> IF i > lo /\ i <= hi + 1 THEN 1 ELSE 0]
\* boundary literal shapes of width w (w >= 8)
WideLits(w) ==
  { Zero(w), One(w), Ones(w), Pow2(w, w-1), Pow2(w, w \div 2), NatBV(w, w), NatBV(w-1, w), NatBV(w+1, w), NatBV(3, w),
    LowMask(w, w \div 2), HighMask(w, w \div 2), IntervalMask(w, 2, w - 3), Not(Pow2(w, w-1)) }
  \cup (IF w > 32 THEN { Pow2(w, 32), Add(Pow2(w, 32), One(w)), LowMask(w, 32) } ELSE {})
  \cup (IF w > 64 THEN { Pow2(w, 64), LowMask(w, 64), IntervalMask(w, 1, 65), HighMask(w, w - 64) } ELSE {})
BasicLits(w) == { Zero(w), One(w), Ones(w), Pow2(w, w-1) }
Lits(w)      == IF Mode = "small" THEN BVs(w) ELSE WideLits(w)

(* a "kind" is a small node table whose last node is the operand, all of BV width w *)
SymK(w)  == { <<SymN("a", w)>>, <<SymN("b", w)>> }
LitK(w)  == { <<LitN(v)>> : v \in Lits(w) }
Leaf(w)  == SymK(w) \cup LitK(w)
LeafB(w) == SymK(w) \cup { <<LitN(v)>> : v \in (IF Mode = "small" THEN BVs(w) ELSE BasicLits(w)) }
Un(w)    == { <<SymN("a", w), Op1(op, w, 1)>> : op \in {"not", "neg"} }
            \cup { <<SymN("c", w + 1), SliceN(1, hi, hi - w + 1)>> : hi \in (w - 1)..w }
            \cup (IF w >= 2 THEN { <<SymN("e", w - 1), ExtN(op, w, 1, 1)>> : op \in {"zext", "sext"} } ELSE {})
            \cup (IF w >= 3 THEN { <<SymN("f", w - 2), ExtN(op, w, 1, 2)>> : op \in {"zext", "sext"} } ELSE {})
            \cup (IF w >= 2 THEN { <<SymN("e", w - 1), SymN("p", 1), Op2("concat", w, 1, 2)>>,
                                   <<SymN("p", 1), SymN("e", w - 1), Op2("concat", w, 1, 2)>>,
                                   <<LitN(Zero(1)), SymN("e", w - 1), Op2("concat", w, 1, 2)>>,
                                   <<SymN("e", w - 1), LitN(Zero(1)), Op2("concat", w, 1, 2)>> } ELSE {})
Bin(w)   == { <<SymN("a", w), SymN("b", w), Op2(op, w, 1, 2)>> : op \in {"and", "or", "xor", "add", "sub", "mul", "shl", "lshr", "ashr",
                                                                            "udiv", "urem", "sdiv", "srem", "smod"} }
            \cup { <<SymN("a", w), LitN(v), Op2(op, w, 1, 2)>> : op \in {"and", "or", "add", "shl", "lshr"}, v \in {One(w), Pow2(w, w-1)} }
            \cup { <<SymN("a", w), Op1("not", w, 1), Op1("not", w, 2)>> }
            \cup { <<SymN("p", 1), SymN("a", w), SymN("b", w), Op3("ite", w, 1, 2, 3)>> }
            \cup { <<ArrN("m", 1, w), SymN("i", 1), ReadN(w, 1, 2)>> }
            \cup { <<ArrN("m", 1, w), SymN("i", 1), SymN("a", w), StoreN(1, 2, 3), SymN("j", 1), ReadN(w, 4, 5)>> }
Cmp1     == { <<SymN("a", 2), SymN("b", 2), Op2(op, 1, 1, 2)>> : op \in {"eq", "ugt", "uge"} }
            \cup { <<SymN("a", 2), SymN("b", 2), CmpS(op, 1, 2, 2)>> : op \in {"sgt", "sge"} }
            \cup { <<SymN("p", 1), SymN("q", 1), Op2("implies", 1, 1, 2)>> }
Rich(w)  == Un(w) \cup Bin(w) \cup (IF w = 1 THEN Cmp1 ELSE {})
Kinds(w) == Leaf(w) \cup Rich(w)
\* pairs of operand kinds: small mode = everything; wide mode = leaf x leaf, rich x basic leaf, basic leaf x rich
Pairs(w) == IF Mode = "small" THEN Kinds(w) \X Kinds(w)
            ELSE (Leaf(w) \X Leaf(w)) \cup (Rich(w) \X LeafB(w)) \cup (LeafB(w) \X Rich(w))

BinOps == {"and", "or", "xor", "add", "sub", "mul", "shl", "lshr", "ashr", "eq", "implies", "ugt", "uge", "sgt", "sge", "concat",
           "udiv", "urem", "sdiv", "srem", "smod"}
Shift(t, k) == [i \in 1..Len(t) |-> [t[i] EXCEPT !.a = [j \in 1..Len(t[i].a) |-> t[i].a[j] + k]]]
ResW(op, w) == IF op \in {"eq", "ugt", "uge", "sgt", "sge", "implies"} THEN 1 ELSE IF op = "concat" THEN 2 * w ELSE w
Root2(op, w, x, y) == IF op \in {"sgt", "sge"} THEN CmpS(op, x, y, w) ELSE Op2(op, ResW(op, w), x, y)
SliceBounds(w) == IF w <= 4 THEN { <<hi, lo>> \in (0..(w-1)) \X (0..(w-1)) : lo <= hi /\ ~(lo = 0 /\ hi = w - 1) }
                  ELSE { <<w-1, 1>>, <<w-2, 0>>, <<0, 0>>, <<w-1, w-1>>, <<w \div 2, (w \div 2) - 1>>, <<w-2, 1>> }
                       \cup (IF w > 64 THEN { <<w-1, 64>>, <<63, 0>>, <<64, 63>> } ELSE {})
ExtBys(w) == IF w <= 4 THEN {1, 2} ELSE {1, 64 - (w % 64), 65}
Arrs(iw, dw) == { <<ArrN("m", iw, dw)>>, <<ArrN("n", iw, dw)>> }
                \cup { <<LitN(v), ConstArrN(1, iw, dw)>> : v \in (IF dw <= 2 THEN BVs(dw) ELSE BasicLits(dw)) }
                \cup { <<ArrN("m", iw, dw), SymN("i", iw), SymN("x", dw), StoreN(1, 2, 3)>> }
                \cup { <<ArrN("m", iw, dw), LitN(Zero(iw)), SymN("x", dw), StoreN(1, 2, 3)>> }
\* depth-1 array terms (an array if-then-else or store below another array operator: the evaluator keeps arrays on their own stack)
ArrRich(iw, dw) == Arrs(iw, dw)
                \cup { <<SymN("p", 1), ArrN("m", iw, dw), ArrN("n", iw, dw), Op3("arrite", 0, 1, 2, 3)>>,
                       <<LitN(<<1>>), ArrN("m", iw, dw), ArrN("n", iw, dw), Op3("arrite", 0, 1, 2, 3)>>,
                       <<LitN(<<0>>), ArrN("m", iw, dw), ArrN("n", iw, dw), Op3("arrite", 0, 1, 2, 3)>>,
                       <<SymN("q", 1), ArrN("n", iw, dw), ArrN("m", iw, dw), SymN("i", iw), SymN("x", dw), StoreN(3, 4, 5), Op3("arrite", 0, 1, 2, 6)>> }
ArrIw == IF WD <= 4 THEN {1, 2} ELSE {1, 3}

Init ==
  \/ \E op \in BinOps : \E pr \in Pairs(WD) :
       LET x == pr[1]  y == pr[2] IN
       /\ (op = "implies" => WD = 1)
       /\ (op \in {"mul", "udiv", "urem", "sdiv", "srem", "smod"} /\ WD > 8 => (x \in LeafB(WD) /\ y \in LeafB(WD)))
       /\ d = [nodes |-> x \o Shift(y, Len(x)) \o <<Root2(op, WD, Len(x), Len(x) + Len(y))>>]
  \/ \E op \in {"not", "neg"} : \E x \in Kinds(WD) : d = [nodes |-> x \o <<Op1(op, WD, Len(x))>>]
  \/ \E op \in {"zext", "sext"} : \E by \in ExtBys(WD) : \E x \in Kinds(WD) : d = [nodes |-> x \o <<ExtN(op, WD + by, Len(x), by)>>]
  \/ \E b \in SliceBounds(WD) : \E x \in Kinds(WD) : d = [nodes |-> x \o <<SliceN(Len(x), b[1], b[2])>>]
  \/ \E c \in Kinds(1) : \E x \in Leaf(WD) \cup Un(WD) : \E y \in LeafB(WD) :
       /\ (WD > 4 => c \in Leaf(1) \cup Cmp1)
       /\ d = [nodes |-> c \o Shift(x, Len(c)) \o Shift(y, Len(c) + Len(x))
                          \o <<Op3("ite", WD, Len(c), Len(c) + Len(x), Len(c) + Len(x) + Len(y))>>]
  \* arrays: read / store / arreq / arrite roots with data width WD
  \/ \E iw \in ArrIw : \E m \in Arrs(iw, WD) : \E i \in LeafB(iw) :
       d = [nodes |-> m \o Shift(i, Len(m)) \o <<ReadN(WD, Len(m), Len(m) + Len(i))>>]
  \/ \E iw \in ArrIw : \E m \in Arrs(iw, WD) : \E i \in LeafB(iw) : \E x \in LeafB(WD) : \E j \in SymK(iw) :
       LET t == m \o Shift(i, Len(m)) \o Shift(x, Len(m) + Len(i)) IN
       d = [nodes |-> t \o <<StoreN(Len(m), Len(m) + Len(i), Len(t))>> \o Shift(j, Len(t) + 1)
                        \o <<ReadN(WD, Len(t) + 1, Len(t) + 1 + Len(j))>>]
  \/ \E iw \in ArrIw : \E m \in ArrRich(iw, WD) : \E n \in ArrRich(iw, WD) :
       d = [nodes |-> m \o Shift(n, Len(m)) \o <<Op2("arreq", 1, Len(m), Len(m) + Len(n))>>]
  \* nested array if-then-else / store / read over depth-1 array terms
  \/ \E iw \in {1} : \E c \in SymK(1) \cup LitK(1) : \E m \in ArrRich(iw, WD) : \E n \in ArrRich(iw, WD) : \E i \in SymK(iw) :
       LET t == c \o Shift(m, Len(c)) \o Shift(n, Len(c) + Len(m)) IN
       /\ (m \notin Arrs(iw, WD) \/ n \notin Arrs(iw, WD))
       /\ d = [nodes |-> t \o <<Op3("arrite", 0, Len(c), Len(c) + Len(m), Len(t))>> \o Shift(i, Len(t) + 1)
                           \o <<ReadN(WD, Len(t) + 1, Len(t) + 1 + Len(i))>>]
  \/ \E iw \in {1} : \E m \in ArrRich(iw, WD) \ Arrs(iw, WD) : \E i \in LeafB(iw) : \E x \in SymK(WD) : \E j \in SymK(iw) :
       LET t == m \o Shift(i, Len(m)) \o Shift(x, Len(m) + Len(i)) IN
       d = [nodes |-> t \o <<StoreN(Len(m), Len(m) + Len(i), Len(t))>> \o Shift(j, Len(t) + 1)
                        \o <<ReadN(WD, Len(t) + 1, Len(t) + 1 + Len(j))>>]
  \/ \E iw \in ArrIw : \E c \in SymK(1) \cup LitK(1) : \E m \in Arrs(iw, WD) : \E n \in Arrs(iw, WD) : \E i \in SymK(iw) :
       LET t == c \o Shift(m, Len(c)) \o Shift(n, Len(c) + Len(m)) IN
       d = [nodes |-> t \o <<Op3("arrite", 0, Len(c), Len(c) + Len(m), Len(t))>> \o Shift(i, Len(t) + 1)
                        \o <<ReadN(WD, Len(t) + 1, Len(t) + 1 + Len(i))>>]
Next == UNCHANGED d
\* self-check of the generator: everything it emits is well-typed according to Expr.tla
GenWellTyped == WellTyped(d.nodes)
Emit == PrintT(<<"PV", ToJson([nodes |-> d.nodes, root |-> Len(d.nodes), wd |-> WD, mode |-> Mode])>>)
=============================================================================
