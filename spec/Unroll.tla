---- MODULE Unroll ----
(* Design-level model of UnrollSmtEncoding::init_at(0) + unroll (encoding.rs) for one shared
   non-state signal x, one input i, two states s1,s2 and one bad-state root b.
   Repaired = FALSE: the encoder as found - all signals used by init expressions are defined in one block BEFORE the
   step-0 states (a signal that reads a state then uses an undeclared symbol), and a signal used by an init AND a next
   expression is defined a second time by the first unroll.  TLC reports those configurations (Report).
   Repaired = TRUE: the encoder after the repair in /repo - an init signal is defined right before the first state whose
   init expression needs it, and the first unroll skips signals init_at(0) has defined.  Sound is an invariant. *)
EXTENDS Naturals, Sequences, FiniteSets, TLC
CONSTANT Repaired
States == {"s1", "s2"}
VARIABLES cfg, script, done
\* cfg: which roots use x, what x reads
Cfgs == [ xInit2 : BOOLEAN,       \* init(s2) uses x  (init may only read earlier states => x reads at most s1 then)
          xNext1 : BOOLEAN, xNext2 : BOOLEAN, xBad : BOOLEAN,
          xReadsS1 : BOOLEAN, xReadsS2 : BOOLEAN, xReadsI : BOOLEAN,
          init1 : BOOLEAN,         \* s1 has a (constant) init
          badReadsS2 : BOOLEAN ]
Valid(c) == /\ (c.xInit2 => ~c.xReadsS2 /\ ~c.xReadsI)      \* domain: init reads earlier states only
            /\ (c.xInit2 \/ c.xNext1 \/ c.xNext2 \/ c.xBad)  \* x is used at all
            /\ (c.xReadsS1 \/ c.xReadsS2 \/ c.xReadsI)
B(p) == IF p THEN 1 ELSE 0
UsesX(c) == [init |-> B(c.xInit2), next |-> B(c.xNext1) + B(c.xNext2), other |-> B(c.xBad)]
Total(u) == u.init + u.next + u.other
\* uses of the input: inherits from x when x reads it (count_expr_uses marks children once per parent set)
UsesI(c) == IF c.xReadsI THEN [init |-> B(UsesX(c).init > 0), next |-> B(UsesX(c).next > 0), other |-> B(UsesX(c).other > 0)]
            ELSE [init |-> 0, next |-> 0, other |-> 0]
\* signal order: inputs first, then x if used more than once (analysis.rs:328-333), then the bad root
XInOrder(c) == Total(UsesX(c)) > 1
Sig(c) == <<[n |-> "i", u |-> UsesI(c), input |-> TRUE, sym |-> TRUE]>>
          \o (IF XInOrder(c) THEN <<[n |-> "x", u |-> UsesX(c), input |-> FALSE, sym |-> FALSE]>> ELSE <<>>)
          \o <<[n |-> "b", u |-> [init |-> 0, next |-> 0, other |-> 1], input |-> FALSE, sym |-> FALSE]>>
At(n, k) == <<n, k>>
\* what a definition of signal n at step k reads (only names that are separately defined/declared)
ReadsX(c, k) == (IF c.xReadsS1 THEN {At("s1", k)} ELSE {}) \cup (IF c.xReadsS2 THEN {At("s2", k)} ELSE {})
                \cup (IF c.xReadsI THEN {At("i", k)} ELSE {})
Via(c, k, usesx) == IF usesx THEN (IF XInOrder(c) THEN {At("x", k)} ELSE ReadsX(c, k)) ELSE {}
ReadsOf(c, n, k) == CASE n = "x" -> ReadsX(c, k)
                      [] n = "b" -> Via(c, k, c.xBad) \cup (IF c.badReadsS2 THEN {At("s2", k)} ELSE {})
                      [] OTHER -> {}
Emit(c, s, k) == IF s.sym THEN [op |-> "declare", name |-> At(s.n, k), reads |-> {}]
                 ELSE [op |-> "define", name |-> At(s.n, k), reads |-> ReadsOf(c, s.n, k)]
DefineSignals(c, k, F(_)) == LET sel == SelectSeq(Sig(c), F) IN [j \in 1..Len(sel) |-> Emit(c, sel[j], k)]
\* init_at(0)
FInit(s)   == s.u.init > 0
FOther0(s) == (s.u.other > 0 \/ s.input) /\ s.u.init = 0
FNextOnly(s) == s.u.next > 0 /\ s.u.other = 0 /\ ~s.input
FOther(s)  == s.u.other > 0 \/ s.input
S1At0(c) == IF c.init1 THEN [op |-> "define", name |-> At("s1", 0), reads |-> {}]
                      ELSE [op |-> "declare", name |-> At("s1", 0), reads |-> {}]
S2At0(c) == IF c.xInit2 THEN [op |-> "define", name |-> At("s2", 0), reads |-> Via(c, 0, TRUE)]
                        ELSE [op |-> "declare", name |-> At("s2", 0), reads |-> {}]
\* signals below the init expression of s2 (s1's init is a constant): x, and the input if x reads it
NeededByS2(c, s) == c.xInit2 /\ (s.n = "x" \/ (s.n = "i" /\ c.xReadsI))
InitAt0(c) ==
  IF Repaired
  THEN << S1At0(c) >> \o DefineSignals(c, 0, LAMBDA s : FInit(s) /\ NeededByS2(c, s)) \o << S2At0(c) >> \o DefineSignals(c, 0, FOther0)
  ELSE DefineSignals(c, 0, FInit) \o << S1At0(c), S2At0(c) >> \o DefineSignals(c, 0, FOther0)
UnrollFrom(c, p) ==
     DefineSignals(c, p, LAMBDA s : FNextOnly(s) /\ ~(Repaired /\ p = 0 /\ FInit(s)))
  \o << [op |-> "define", name |-> At("s1", p+1), reads |-> Via(c, p, c.xNext1) \cup {At("s1", p)}],
        [op |-> "define", name |-> At("s2", p+1), reads |-> Via(c, p, c.xNext2) \cup {At("s2", p)}] >>
  \o DefineSignals(c, p+1, FOther)
Script(c) == InitAt0(c) \o UnrollFrom(c, 0) \o UnrollFrom(c, 1)
Names(sc, upto) == { sc[j].name : j \in 1..upto }
OnceOnly(sc)  == \A j1, j2 \in 1..Len(sc) : sc[j1].name = sc[j2].name => j1 = j2
BeforeUse(sc) == \A j \in 1..Len(sc) : sc[j].reads \subseteq Names(sc, j-1)
\* bmc reads b@k and every input@k, state@0
Available(sc) == \A k \in 0..2 : At("b", k) \in Names(sc, Len(sc)) /\ At("i", k) \in Names(sc, Len(sc))
Init == cfg \in {c \in Cfgs : Valid(c)} /\ script = Script(cfg) /\ done = FALSE
Next == ~done /\ done' = TRUE /\ UNCHANGED <<cfg, script>>
Sound == OnceOnly(script) /\ BeforeUse(script) /\ Available(script)
Report == LET o == OnceOnly(script) b == BeforeUse(script) a == Available(script) IN
          (~o \/ ~b \/ ~a) => PrintT(<<"BADCFG", [once |-> o, beforeUse |-> b, avail |-> a], UsesX(cfg), cfg>>)
====
