---------------------------- MODULE Trace_SigOrder ----------------------------
(* (V) beyond the listed properties: system::analysis::analyze_for_serialization, the "signal order" on which the
   unrolling encoder (C04) and both system writers (C09) build.  For a system S (TSys node table) and the flag
   include_outputs the analysis returns a sequence of entries [expr, kind, uses = (next, init, other)].  Specified here:

     Inputs     the sequence starts with the inputs of S, in declaration order, kind "input";
     Uses       every entry carries the use counts of its expression, as defined in UseCount.tla, with respect to the
                three root sets: next expressions, init expressions, and bad states + constraints (+ outputs);
     Once       after the inputs no expression occurs twice;
     Order      operands first: a non-input entry comes after every entry that is a proper sub-term of it;
     Complete   every non-leaf expression below a root that is used more than once (in total) has an entry, and so
                does every non-leaf bad state / constraint (/ output) expression;
     Minimal    every non-input entry is such an expression, or a leaf that is a bad state / constraint / output root.

   The counts are small here (the real counter saturates at 2^16 - 1). *)
EXTENDS TSys, Json, IOUtils
Rec == ndJsonDeserialize(IOEnv.TRACE)
VARIABLE l
Init == l = 1
Next == l <= Len(Rec) /\ l' = l + 1
Occ(nodes, p, i) == Cardinality({ j \in 1..Len(nodes[p].a) : nodes[p].a[j] = i })
(* count_expr_uses for a LIST of roots (analysis.rs pops every list element): a root counts 1 however often it is listed,
   every expression below the roots contributes its operand occurrences once - except a root that is listed k times,
   whose operands are counted k times.  (Observation: two bad states that are the same expression make their operands
   look shared; the only effect is an extra signal definition.) *)
Times(rs, p) == Cardinality({ q \in 1..Len(rs) : rs[q] = p })
UsesOf(nodes, rs, i) ==
  LET roots == { rs[q] : q \in 1..Len(rs) }
      R == ReachFrom(nodes, roots) IN
  (IF i \in roots THEN 1 ELSE 0)
  + FoldLeft(LAMBDA acc, p : IF p \in R THEN acc + (IF p \in roots THEN Times(rs, p) ELSE 1) * Occ(nodes, p, i) ELSE acc, 0, Idx(Len(nodes)))
Sel(seq) == SelectSeq(seq, LAMBDA x : x # 0)
Why(r) ==
  IF r.kind = "panic" THEN "panic"
  ELSE
  LET S      == r.sys
      nodes  == S.nodes
      ord    == S.extra                                                  \* node index of every entry
      ni     == Len(S.inputs)
      nextL  == Sel([i \in 1..Len(S.states) |-> S.states[i].next])       \* root lists, as the analysis receives them
      initL  == Sel([i \in 1..Len(S.states) |-> S.states[i].init])
      outL   == IF r.inc = 1 THEN [i \in 1..Len(S.outputs) |-> S.outputs[i].expr] ELSE <<>>
      likeL  == S.bads \o S.constraints \o outL
      nextR  == { nextL[q] : q \in 1..Len(nextL) }
      initR  == { initL[q] : q \in 1..Len(initL) }
      likeR  == { likeL[q] : q \in 1..Len(likeL) }
      total(i) == UsesOf(nodes, nextL, i) + UsesOf(nodes, initL, i) + UsesOf(nodes, likeL, i)
      below  == ReachFrom(nodes, nextR \cup initR \cup likeR)
      nonleaf(i) == Len(nodes[i].a) > 0
      rest   == { p \in 1..Len(ord) : p > ni }
      must   == { i \in below : nonleaf(i) /\ (total(i) > 1 \/ i \in likeR) }
      may    == must \cup { i \in likeR : ~nonleaf(i) }
  IN
  IF Len(ord) # Len(r.order) THEN "harness: lengths"
  ELSE IF Len(ord) < ni \/ \E p \in 1..ni : ord[p] # S.inputs[p].sym \/ r.order[p].kind # "input" THEN "the order does not start with the inputs"
  ELSE IF \E p \in 1..Len(ord) : r.order[p].next # UsesOf(nodes, nextL, ord[p]) \/ r.order[p].init # UsesOf(nodes, initL, ord[p])
                                 \/ r.order[p].other # UsesOf(nodes, likeL, ord[p]) THEN "an entry carries the wrong use counts"
  ELSE IF \E p, q \in rest : p < q /\ ord[p] = ord[q] THEN "an expression has two entries"
  ELSE IF \E p, q \in rest : p < q /\ ord[q] # ord[p] /\ ord[q] \in ReachFrom(nodes, {ord[p]}) THEN "an entry comes before one of its sub-terms"
  ELSE IF \E i \in must : i \notin { ord[p] : p \in rest } THEN "a shared or property expression has no entry"
  ELSE IF \E p \in rest : ord[p] \notin may THEN "an entry for an expression that needs none"
  ELSE "ok"
Inv == l <= Len(Rec) => LET w == Why(Rec[l]) IN
         IF w = "ok" THEN TRUE ELSE PrintT(<<"PV", ToJson([k |-> "reject", l |-> l, id |-> Rec[l].id, why |-> w])>>)
=============================================================================
