//! C05 / C14: SMT-LIB writer and reader.
//!  c05: serialize_cmd output for declarations / definitions / assertions / assumption lists / get-value is
//!       tokenised by the harness' own front end (smt.rs) and recorded next to the expression it was written for.
//!  c14: (a) writer output read back with parse_expr / parse_command (relation of Trace_C01);
//!       (b) model values rendered in the forms solvers print them, and malformed variants, read with parse_expr.
use crate::ex::*;
use crate::smt;
use crate::{flag, flag_u};
use patronus::smt::{SmtCommand, parse_command, parse_expr, serialize_cmd};
use rustc_hash::FxHashMap;

const NAMES: [&str; 8] = ["plain", "a b", "$x:1@2", "1abc", "caf\u{e9}", "with.dot", "x#y", "q(1)"];

fn write(ctx: &Context, cmd: &SmtCommand) -> Result<String, (String, String)> {
    guarded(|| {
        let mut buf = Vec::new();
        serialize_cmd(&mut buf, Some(ctx), cmd).expect("write");
        String::from_utf8(buf).expect("utf8")
    })
}

fn sort_json(t: Type) -> J {
    let el = |w: u32| if w == 1 { ("bool", 0u32) } else { ("bv", w) };
    match t {
        Type::BV(1) => json!({"k":"bool","w":0,"ik":"","iw":0,"dk":"","dw":0}),
        Type::BV(w) => json!({"k":"bv","w":w,"ik":"","iw":0,"dk":"","dw":0}),
        Type::Array(a) => { let (ik, iw) = el(a.index_width); let (dk, dw) = el(a.data_width); json!({"k":"arr","w":0,"ik":ik,"iw":iw,"dk":dk,"dw":dw}) }
    }
}

/// rebuilds `root` with its symbols renamed (exercise identifier quoting)
fn rename_symbols(ctx: &mut Context, root: ExprRef, rng: &mut SmallRng) -> ExprRef {
    let (nodes, ix) = export_many(ctx, &[root]);
    let mut nodes = nodes;
    let mut map: FxHashMap<String, String> = FxHashMap::default();
    for n in nodes.as_array_mut().unwrap() {
        let op = n["op"].as_str().unwrap().to_string();
        if op == "bvsym" || op == "arrsym" {
            let old = n["name"].as_str().unwrap().to_string();
            let k = map.len();
            let new = map.entry(old.clone()).or_insert_with(|| format!("{}{}", NAMES[rng.random_range(0..NAMES.len())], k)).clone();
            n["name"] = json!(new);
        }
    }
    let refs = import(ctx, &nodes);
    refs[ix[0] - 1]
}

fn cmds_json(text: &str) -> (J, String) {
    match smt::script(text) { Ok(c) => (json!(c), String::new()), Err(e) => (json!([]), e) }
}

pub fn write_record(ctx: &mut Context, rng: &mut SmallRng, root: ExprRef, id: &str) -> Vec<J> {
    let mut out = vec![];
    let syms = symbols_of(ctx, &[root]);
    // declarations of all symbols, then the command
    let mut text = String::new();
    let mut wpanic: Option<(String, String)> = None;
    for s in syms.iter() {
        match write(ctx, &SmtCommand::DeclareConst(*s)) { Ok(t) => text.push_str(&t), Err(e) => { wpanic = Some(e); } }
    }
    let is_bool = root.get_type(ctx) == Type::BV(1);
    let mut kinds: Vec<(&str, SmtCommand, Vec<ExprRef>)> = vec![];
    let def_sym = match root.get_type(ctx) { Type::BV(w) => ctx.bv_symbol("def!sym", w), Type::Array(a) => ctx.array_symbol("def!sym", a.index_width, a.data_width) };
    kinds.push(("define", SmtCommand::DefineConst(def_sym, root), vec![root]));
    kinds.push(("getvalue", SmtCommand::GetValue(root), vec![root]));
    if is_bool {
        kinds.push(("assert", SmtCommand::Assert(root), vec![root]));
        let extra: Vec<ExprRef> = syms.iter().cloned().filter(|s| s.get_type(ctx) == Type::BV(1)).take(2).collect();
        let mut es = vec![root];
        if rng.random_bool(0.5) { es.extend(extra); }
        kinds.push(("csa", SmtCommand::CheckSatAssuming(es.clone()), es));
    }
    for (kind, cmd, exprs) in kinds {
        let (nodes, ix) = export_many(ctx, &exprs);
        let full = match (&wpanic, write(ctx, &cmd)) {
            (None, Ok(t)) => Ok(format!("{text}{t}")),
            (Some(e), _) => Err(e.clone()),
            (_, Err(e)) => Err(e),
        };
        match full {
            Ok(t) => {
                let (cmds, err) = cmds_json(&t);
                out.push(json!({"ev":"WriteCmd","id":format!("{id}:{kind}"),"kind":kind,"outcome":if err.is_empty() {"ok"} else {"unreadable"},"loc":err,
                                "nodes":nodes,"roots":ix,"def_sort":sort_json(root.get_type(ctx)),"cmds":cmds,"text":t.lines().collect::<Vec<_>>()}));
            }
            Err((loc, msg)) => out.push(json!({"ev":"WriteCmd","id":format!("{id}:{kind}"),"kind":kind,"outcome":"panic","loc":format!("{loc}|{msg}"),
                                               "nodes":nodes,"roots":ix,"def_sort":sort_json(root.get_type(ctx)),"cmds":[],"text":[]})),
        }
    }
    out
}

fn load_exprs(args: &[String], rng: &mut SmallRng, f: &mut dyn FnMut(&mut Context, &mut SmallRng, ExprRef, String)) {
    if let Some(inp) = flag(args, "--in") {
        for (i, rec) in read_ndjson(inp).iter().enumerate() {
            let mut ctx = Context::default();
            let refs = import(&mut ctx, &rec["nodes"]);
            let mut root = refs[rec["root"].as_u64().unwrap() as usize - 1];
            if i % 5 == 0 { root = rename_symbols(&mut ctx, root, rng); }
            f(&mut ctx, rng, root, format!("g{i}"));
        }
    }
    let cfg = GenCfg { div: true, mul_max_w: 64, arrays: true, cmp_widths: vec![1, 2, 3, 8, 33] };
    for i in 0..flag_u(args, "--random", 0) {
        let mut ctx = Context::default();
        let w = *[1u32, 1, 2, 3, 8, 33, 65].choose(rng).unwrap();
        let mut syms = vec![];
        for (k, sw) in [w, w, 1, 1, 3, 8].iter().enumerate() { syms.push(ctx.bv_symbol(&format!("{}{k}", NAMES[rng.random_range(0..NAMES.len())]), *sw)); }
        // arrays with 1-bit index and / or data
        let (iw, dw) = *[(1u32, 1u32), (1, w), (2, 1), (2, w), (3, 8)].choose(rng).unwrap();
        let arrs = vec![ctx.array_symbol(&format!("m{iw}_{dw}"), iw, dw)];
        let d = rng.random_range(1..=3);
        let mut root = gen_bv(&mut ctx, rng, &cfg, w, d, &syms, &arrs);
        if rng.random_range(0..6) == 0 {
            // array-typed root
            let i = gen_bv(&mut ctx, rng, &cfg, iw, 1, &syms, &[]);
            let dd = gen_bv(&mut ctx, rng, &cfg, dw, 1, &syms, &[]);
            root = ctx.array_store(arrs[0], i, dd);
            if rng.random_bool(0.5) { let c = syms[2]; let k = ctx.array_const(dd, iw); root = ctx.ite(c, root, k); }
        }
        f(&mut ctx, rng, root, format!("r{i}"));
    }
}

pub fn run(args: &[String]) {
    let mut out = Out::new(flag(args, "--out").expect("--out"));
    let mut rng = seed_rng(env_seed());
    load_exprs(args, &mut rng, &mut |ctx, rng, root, id| {
        for r in write_record(ctx, rng, root, &id) { out.put(&r); }
    });
    let n = out.n;
    out.finish();
    println!("{}", json!({"records": n}));
}

// -------------------------------------------------------------------------------------------------
// C14

fn readback_record(ctx: &mut Context, root: ExprRef, id: &str) -> J {
    let syms = symbols_of(ctx, &[root]);
    let st: FxHashMap<String, ExprRef> = syms.iter().map(|s| (ctx.get_symbol_name(*s).unwrap().to_string(), *s)).collect();
    let mut outs: Vec<(String, Result<Vec<ExprRef>, (String, String)>)> = vec![];
    // (1) the bare term, as written inside get-value
    let term_text = write(ctx, &SmtCommand::GetValue(root)).map(|t| { let t = t.trim(); t["(get-value (".len()..t.len() - 2].to_string() });
    match &term_text {
        Ok(t) => {
            let r = guarded(|| parse_expr(ctx, &st, t.as_bytes()));
            outs.push(("parse_expr".into(), match r { Ok(Ok(e)) => Ok(vec![e]), Ok(Err(e)) => Err(("reader-error".into(), format!("{e}"))), Err(e) => Err(e) }));
        }
        Err(e) => outs.push(("parse_expr".into(), Err(e.clone()))),
    }
    // (2) whole commands
    let is_bool = root.get_type(ctx) == Type::BV(1);
    let def_sym = match root.get_type(ctx) { Type::BV(w) => ctx.bv_symbol("def_sym", w), Type::Array(a) => ctx.array_symbol("def_sym", a.index_width, a.data_width) };
    let mut cmds: Vec<(&str, SmtCommand)> = vec![("define", SmtCommand::DefineConst(def_sym, root)), ("getvalue", SmtCommand::GetValue(root))];
    if is_bool {
        cmds.push(("assert", SmtCommand::Assert(root)));
        cmds.push(("csa1", SmtCommand::CheckSatAssuming(vec![root])));
        let t = ctx.get_true();
        cmds.push(("csa2", SmtCommand::CheckSatAssuming(vec![root, t])));
    }
    for (name, cmd) in cmds {
        let text = match write(ctx, &cmd) { Ok(t) => t, Err(e) => { outs.push((name.into(), Err(e))); continue; } };
        let r = guarded(|| parse_command(ctx, &st, text.as_bytes()));
        let res = match r {
            Ok(Ok(SmtCommand::DefineConst(s, e))) => if ctx.get_symbol_name(s) == Some("def_sym") && s.get_type(ctx) == root.get_type(ctx) { Ok(vec![e]) } else { Err(("reader-error".into(), "defined symbol differs".into())) },
            Ok(Ok(SmtCommand::GetValue(e))) | Ok(Ok(SmtCommand::Assert(e))) => Ok(vec![e]),
            Ok(Ok(SmtCommand::CheckSatAssuming(es))) => {
                let want = if name == "csa2" { 2 } else { 1 };
                if es.len() == want { Ok(vec![es[0]]) } else { Err(("reader-error".into(), format!("check-sat-assuming with {want} term(s) read back with {}", es.len()))) }
            }
            Ok(Ok(_)) => Err(("reader-error".into(), "read back as a different command".into())),
            Ok(Err(e)) => Err(("reader-error".into(), format!("{e}"))),
            Err(e) => Err(e),
        };
        outs.push((name.into(), res));
    }
    let mut roots = vec![root];
    for (_, r) in outs.iter() { if let Ok(v) = r { roots.extend(v.iter().cloned()); } }
    let (nodes, ix) = export_many(ctx, &roots);
    let mut p = 1;
    let outj: Vec<J> = outs.iter().map(|(api, r)| match r {
        Ok(v) => { let rs: Vec<usize> = ix[p..p + v.len()].to_vec(); p += v.len(); json!({"api": api, "kind": "ok", "roots": rs, "loc": "", "msg": ""}) }
        Err((loc, msg)) => json!({"api": api, "kind": if loc == "reader-error" { "error" } else { "panic" }, "roots": [], "loc": loc, "msg": msg}),
    }).collect();
    json!({"ev":"Simplify","id":id,"nodes":nodes,"root":ix[0],"outs":outj,"cache":[],"text":term_text.unwrap_or_default()})
}

fn bv_text(v: &BitVecValue, rng: &mut SmallRng) -> String {
    let w = v.width();
    if w == 1 && rng.random_bool(0.7) { return if v.is_zero() { "false".into() } else { "true".into() }; }
    if w % 4 == 0 && rng.random_bool(0.5) { return format!("#x{}", v.to_hex_str()); }
    format!("#b{}", v.to_bit_str())
}
fn sort_text(w: u32) -> String { if w == 1 { "Bool".into() } else { format!("(_ BitVec {w})") } }

/// a model value in one of the forms solvers print; returns (text, tagged value)
fn model_value(rng: &mut SmallRng) -> (String, J, J, &'static str, Vec<(String, u32)>) {
    let ws = [1u32, 2, 3, 4, 8, 31, 32, 33, 64, 65, 128, 129];
    if rng.random_bool(0.5) {
        let w = *ws.choose(rng).unwrap();
        let v = rnd_bv(rng, w);
        let mut t = bv_text(&v, rng);
        let mut bound = vec![];
        match rng.random_range(0..10) {
            0 | 1 => { t = format!("(let ((a!1 {t})) a!1)"); bound.push(("a!1".to_string(), w)); }
            // an inner binding shadows an outer one of the same name
            2 => { let o = bv_text(&rnd_bv(rng, w), rng); t = format!("(let ((a!1 {o})) (let ((a!1 {t})) a!1))"); bound.push(("a!1".to_string(), w)); }
            _ => {}
        }
        (t, bvval(&v), type_json(Type::BV(w)), "", bound)
    } else {
        let iw = *[1u32, 2, 3, 8].choose(rng).unwrap();
        let dw = *[1u32, 2, 8, 65].choose(rng).unwrap();
        let def = rnd_bv(rng, dw);
        let mut t = format!("((as const (Array {} {})) {})", sort_text(iw), sort_text(dw), bv_text(&def, rng));
        let mut ents = vec![];
        let n = rng.random_range(0..=3);
        let mut lets = vec![];
        for k in 0..n {
            let (i, d) = (rnd_bv(rng, iw), rnd_bv(rng, dw));
            let dt = bv_text(&d, rng);
            let dt = if rng.random_range(0..4) == 0 { lets.push((format!("a!{k}"), dt)); format!("a!{k}") } else { dt };
            t = format!("(store {t}{}{} {dt})", if rng.random_bool(0.3) { "\n   " } else { " " }, bv_text(&i, rng));
            ents.push(json!([bits(&i), bits(&d)]));
        }
        if !lets.is_empty() { t = format!("(let ({}) {t})", lets.iter().map(|(n, v)| format!("({n} {v})")).collect::<Vec<_>>().join(" ")); }
        let cls = if lets.len() >= 2 { "let-with-several-bindings" } else { "" };
        let bound: Vec<(String, u32)> = lets.iter().map(|(n, _)| (n.clone(), dw)).collect();
        (t, json!({"t":"arr","bits":[],"iw":iw,"dw":dw,"def":bits(&def),"ents":ents}), type_json(Type::Array(ArrayType { index_width: iw, data_width: dw })), cls, bound)
    }
}

/// `declared`: symbols of these names and widths are in the symbol table handed to the reader (a let-bound name
/// shadows a declared symbol of the same name, so the value read must not change)
fn read_value_record(id: &str, text: &str, want: &J, tj: &J, malformed: bool, cls: &str, declared: &[(String, u32)]) -> J {
    let mut ctx = Context::default();
    let mut st: FxHashMap<String, ExprRef> = FxHashMap::default();
    for (n, w) in declared { let s = ctx.bv_symbol(n, *w); st.insert(n.clone(), s); }
    let r = guarded(|| parse_expr(&mut ctx, &st, text.as_bytes()));
    let (kind, got, loc) = match r {
        Ok(Ok(e)) => { let (n, ix) = export_many(&ctx, &[e]); ("ok", json!({"nodes": n, "root": ix[0]}), String::new()) }
        Ok(Err(e)) => ("error", json!({"nodes": [], "root": 0}), format!("{e}")),
        Err((loc, msg)) => ("panic", json!({"nodes": [], "root": 0}), format!("{loc}|{msg}")),
    };
    json!({"ev":"ReadValue","id":id,"text":text,"malformed":if malformed {1} else {0},"want":want,"t":tj,"kind":kind,"got":got,"loc":loc,"cls":cls})
}

pub fn run_c14(args: &[String]) {
    let mut out = Out::new(flag(args, "--out").expect("--out"));
    let vout_path = flag(args, "--values-out").expect("--values-out");
    let mut vout = Out::new(vout_path);
    let mut rng = seed_rng(env_seed());
    load_exprs(args, &mut rng, &mut |ctx, _rng, root, id| { out.put(&readback_record(ctx, root, &id)); });
    for i in 0..flag_u(args, "--values", 0) {
        let (text, want, tj, cls, bound) = model_value(&mut rng);
        vout.put(&read_value_record(&format!("v{i}"), &text, &want, &tj, false, cls, &[]));
        if !bound.is_empty() {
            // the same text with the bound names (and an unrelated one) also declared as symbols
            let mut decl = bound.clone();
            decl.push(("unrelated".into(), 3));
            vout.put(&read_value_record(&format!("v{i}s"), &text, &want, &tj, false, cls, &decl));
        }
        // malformed variants: prefixes and parenthesis edits that the independent front end rejects
        if i % 4 == 0 {
            let cs: Vec<char> = text.chars().collect();
            let mut variants: Vec<String> = vec![];
            for _ in 0..3 { let k = rng.random_range(0..cs.len()); variants.push(cs[..k].iter().collect()); }
            if let Some(p) = cs.iter().rposition(|c| *c == ')') { let mut v = cs.clone(); v.remove(p); variants.push(v.into_iter().collect()); }
            if let Some(p) = cs.iter().position(|c| *c == '(') { let mut v = cs.clone(); v.remove(p); variants.push(v.into_iter().collect()); }
            variants.push(format!("{text})"));
            variants.push(String::new());
            variants.push("|abc".into());
            variants.push("\"a string\"".into());
            variants.push(format!("(store {text} \"s\")"));
            for (k, v) in variants.iter().enumerate() {
                let mut nodes = vec![];
                let wellformed = smt::tokenize(v).ok().filter(|t| t.len() == 1).and_then(|t| smt::term(&t[0], &mut nodes, &std::collections::HashMap::new()).ok()).is_some();
                if wellformed { continue; }
                vout.put(&read_value_record(&format!("v{i}m{k}"), v, &want, &tj, true, "", &[]));
            }
        }
    }
    // every command without a term: written by serialize_cmd, read back by parse_command, must be the same command
    {
        use patronus::smt::Logic;
        fn cmd_json(ctx: &Context, c: &SmtCommand) -> J {
            match c {
                SmtCommand::Exit => json!({"c":"exit","a":[]}),
                SmtCommand::CheckSat => json!({"c":"check-sat","a":[]}),
                SmtCommand::SetLogic(l) => json!({"c":"set-logic","a":[format!("{l:?}")]}),
                SmtCommand::SetOption(k, v) => json!({"c":"set-option","a":[k, v]}),
                SmtCommand::SetInfo(k, v) => json!({"c":"set-info","a":[k, v]}),
                SmtCommand::Push(n) => json!({"c":"push","a":[n.to_string()]}),
                SmtCommand::Pop(n) => json!({"c":"pop","a":[n.to_string()]}),
                SmtCommand::GetUnsatAssumptions => json!({"c":"get-unsat-assumptions","a":[]}),
                SmtCommand::DeclareConst(s) => json!({"c":"declare-const","a":[ctx.get_symbol_name(*s).unwrap_or("?"), type_json(s.get_type(ctx)).to_string()]}),
                _ => json!({"c":"other","a":[]}),
            }
        }
        let mut ctx = Context::default();
        let mut cmds: Vec<SmtCommand> = vec![SmtCommand::Exit, SmtCommand::CheckSat, SmtCommand::GetUnsatAssumptions,
            SmtCommand::SetLogic(Logic::QfBv), SmtCommand::SetLogic(Logic::QfAbv), SmtCommand::SetLogic(Logic::QfAufbv), SmtCommand::SetLogic(Logic::All),
            SmtCommand::SetOption("produce-models".into(), "true".into()), SmtCommand::SetOption("incremental".into(), "false".into()),
            SmtCommand::SetInfo("status".into(), "sat".into()), SmtCommand::SetInfo("source".into(), "pv".into()),
            SmtCommand::Push(1), SmtCommand::Pop(1), SmtCommand::Push(3), SmtCommand::Pop(2)];
        for (nm, t) in [("p", Type::BV(1)), ("v8", Type::BV(8)), ("v65", Type::BV(65)), ("needs quoting", Type::BV(2)),
                        ("m", Type::Array(ArrayType { index_width: 1, data_width: 1 })), ("m2", Type::Array(ArrayType { index_width: 4, data_width: 1 })),
                        ("m3", Type::Array(ArrayType { index_width: 1, data_width: 7 })), ("m4", Type::Array(ArrayType { index_width: 5, data_width: 9 }))] {
            let s = match t { Type::BV(w) => ctx.bv_symbol(nm, w), Type::Array(a) => ctx.array_symbol(nm, a.index_width, a.data_width) };
            cmds.push(SmtCommand::DeclareConst(s));
        }
        let st: FxHashMap<String, ExprRef> = FxHashMap::default();
        for (i, c) in cmds.iter().enumerate() {
            let written = cmd_json(&ctx, c);
            let rec = match write(&ctx, c) {
                Err((loc, msg)) => json!({"ev":"Cmd","id":format!("c{i}"),"text":"","written":written,"kind":"panic","read":{"c":"","a":[]},"loc":format!("{loc}|{msg}"),"cls":""}),
                Ok(text) => match guarded(|| parse_command(&mut ctx, &st, text.as_bytes())) {
                    Ok(Ok(back)) => json!({"ev":"Cmd","id":format!("c{i}"),"text":text.trim(),"written":written,"kind":"ok","read":cmd_json(&ctx, &back),"loc":"","cls":""}),
                    Ok(Err(e)) => json!({"ev":"Cmd","id":format!("c{i}"),"text":text.trim(),"written":written,"kind":"error","read":{"c":"","a":[]},"loc":format!("{e}"),"cls":""}),
                    Err((loc, msg)) => json!({"ev":"Cmd","id":format!("c{i}"),"text":text.trim(),"written":written,"kind":"panic","read":{"c":"","a":[]},"loc":format!("{loc}|{msg}"),"cls":""}),
                },
            };
            vout.put(&rec);
        }
    }
    let (n, nv) = (out.n, vout.n);
    out.finish();
    vout.finish();
    println!("{}", json!({"records": n, "value_records": nv}));
}

// -------------------------------------------------------------------------------------------------
// C14, let machine: terms of spec/SmtLetParser.tla as text through the real parse_expr

fn let_text(t: &J) -> String {
    match t["k"].as_str().unwrap() {
        "c" => if t["v"] == 0 { "#b00".into() } else { "#b01".into() },
        "s" => t["n"].as_str().unwrap().to_string(),
        "f" => format!("(bvxor {} {})", let_text(&t["a"]), let_text(&t["b"])),
        _ => {
            let bs: Vec<String> = t["bs"].as_array().unwrap().iter().map(|b| format!("({} {})", b["n"].as_str().unwrap(), let_text(&b["v"]))).collect();
            format!("(let ({}) {})", bs.join(" "), let_text(&t["body"]))
        }
    }
}

pub fn run_smtlet(args: &[String]) {
    let mut out = Out::new(flag(args, "--out").expect("--out"));
    for (i, t) in read_ndjson(flag(args, "--in").expect("--in")).iter().enumerate() {
        let text = let_text(t);
        let mut ctx = Context::default();
        let mut st: FxHashMap<String, ExprRef> = FxHashMap::default();
        for n in ["a", "b"] { let s = ctx.bv_symbol(n, 2); st.insert(n.to_string(), s); }
        let r = guarded(|| parse_expr(&mut ctx, &st, text.as_bytes()));
        let rec = match r {
            Ok(Ok(e)) => { let (n, ix) = export_many(&ctx, &[e]); json!({"ev":"Let","id":format!("l{i}"),"term":t,"text":text,"kind":"ok","nodes":n,"root":ix[0],"loc":""}) }
            Ok(Err(e)) => json!({"ev":"Let","id":format!("l{i}"),"term":t,"text":text,"kind":"error","nodes":[],"root":0,"loc":format!("{e}").chars().take(120).collect::<String>()}),
            Err((loc, msg)) => json!({"ev":"Let","id":format!("l{i}"),"term":t,"text":text,"kind":"panic","nodes":[],"root":0,"loc":format!("{loc}|{msg}")}),
        };
        out.put(&rec);
    }
    let n = out.n;
    out.finish();
    println!("{}", json!({"records": n}));
}
