//! C06: concrete evaluation. Executes eval_expr / eval_bv_expr / eval_array_expr on TLC-generated and
//! random DAGs under enumerated / corner / random assignments and records what they returned.
use crate::ex::*;
use crate::{flag, flag_u};
use rustc_hash::FxHashMap;

pub const DIV_OPS: [&str; 5] = ["udiv", "urem", "sdiv", "srem", "smod"];

pub fn has_div(nodes: &J) -> bool {
    nodes.as_array().unwrap().iter().any(|n| DIV_OPS.contains(&n["op"].as_str().unwrap()))
}

fn sym_bits(ctx: &Context, s: ExprRef) -> u64 {
    match s.get_type(ctx) {
        Type::BV(w) => w as u64,
        Type::Array(a) => {
            if a.index_width > 3 { 1000 } else { (a.data_width as u64) << a.index_width }
        }
    }
}

fn corner(w: u32, c: u32) -> BitVecValue {
    let s: String = (1..=w)
        .rev()
        .map(|i| {
            let b = match c % 8 {
                0 => false,
                1 => true,
                2 => i == 1,
                3 => i == w,
                4 => i != w,
                5 => i % 2 == 1,
                6 => i % 2 == 0,
                _ => i > w / 2,
            };
            if b { '1' } else { '0' }
        })
        .collect();
    BitVecValue::from_bit_str(&s).unwrap()
}

/// an assignment value the harness constructed itself (so default and entries are known exactly)
#[derive(Clone)]
pub enum EnvVal {
    Bv(BitVecValue),
    Arr { iw: u32, dw: u32, def: BitVecValue, ents: Vec<(BitVecValue, BitVecValue)>, dense: bool },
}
impl EnvVal {
    pub fn to_value(&self) -> Value {
        match self {
            EnvVal::Bv(b) => Value::BitVec(b.clone()),
            EnvVal::Arr { iw, def, ents, dense, .. } => {
                let mut a = if *dense { ArrayValue::new_dense(*iw, def) } else { ArrayValue::new_sparse(*iw, def) };
                for (i, d) in ents { a.store(i, d); }
                Value::Array(a)
            }
        }
    }
    pub fn to_json(&self) -> J {
        match self {
            EnvVal::Bv(b) => bits(b),
            EnvVal::Arr { def, ents, .. } => json!({"def": bits(def), "ents": ents.iter().map(|(i, d)| json!([bits(i), bits(d)])).collect::<Vec<_>>(), "total": 0}),
        }
    }
}

fn arr_from(iw: u32, dw: u32, dense: bool, f: &mut dyn FnMut(u64) -> BitVecValue) -> EnvVal {
    let ents = (0..(1u64 << iw)).map(|i| (BitVecValue::from_u64(i, iw), f(i))).collect();
    EnvVal::Arr { iw, dw, def: BitVecValue::zero(dw), ents, dense }
}

/// all values of a type with few bits
fn all_vals(t: Type) -> Vec<EnvVal> {
    match t {
        Type::BV(w) => (0..(1u64 << w)).map(|v| EnvVal::Bv(BitVecValue::from_u64(v, w))).collect(),
        Type::Array(a) => {
            let n = 1u64 << a.index_width;
            let total = (a.data_width as u64) * n;
            (0..(1u64 << total))
                .map(|code| {
                    let mut k = 0;
                    arr_from(a.index_width, a.data_width, code % 2 == 0, &mut |_| {
                        let v = (code >> (k * a.data_width as u64)) & ((1u64 << a.data_width) - 1);
                        k += 1;
                        BitVecValue::from_u64(v, a.data_width)
                    })
                })
                .collect()
        }
    }
}

fn sparse_arr(iw: u32, dw: u32, f: &mut dyn FnMut(u32, u32) -> BitVecValue) -> EnvVal {
    let def = f(dw, 0);
    let ents = (0..3).map(|q| (f(iw, 1 + 2 * q), f(dw, 2 + 2 * q))).collect();
    EnvVal::Arr { iw, dw, def, ents, dense: false }
}

pub fn make_envs(ctx: &Context, rng: &mut SmallRng, syms: &[ExprRef], nrand: usize) -> (Vec<Vec<EnvVal>>, bool) {
    let total: u64 = syms.iter().map(|s| sym_bits(ctx, *s)).sum();
    if total <= 10 {
        let mut envs: Vec<Vec<EnvVal>> = vec![vec![]];
        for s in syms {
            let vals = all_vals(s.get_type(ctx));
            envs = envs.into_iter().flat_map(|e| vals.iter().map(move |v| { let mut e2 = e.clone(); e2.push(v.clone()); e2 })).collect();
        }
        return (envs, true);
    }
    let mut envs = vec![];
    for e in 0..64u32 {
        let mut env = vec![];
        for (j, s) in syms.iter().enumerate() {
            let c = (e % 8 + (j as u32) * (e / 8)) % 8;
            env.push(match s.get_type(ctx) {
                Type::BV(w) => EnvVal::Bv(corner(w, c)),
                Type::Array(a) => {
                    if a.index_width <= 4 {
                        arr_from(a.index_width, a.data_width, e % 2 == 0, &mut |i| corner(a.data_width, c + i as u32))
                    } else {
                        sparse_arr(a.index_width, a.data_width, &mut |w, q| corner(w, c + q))
                    }
                }
            });
        }
        envs.push(env);
    }
    for e in 0..nrand {
        let mut env = vec![];
        for s in syms.iter() {
            env.push(match s.get_type(ctx) {
                Type::BV(w) => EnvVal::Bv(rnd_bv(rng, w)),
                Type::Array(a) => {
                    if a.index_width <= 4 {
                        arr_from(a.index_width, a.data_width, e % 2 == 0, &mut |_| rnd_bv(rng, a.data_width))
                    } else {
                        sparse_arr(a.index_width, a.data_width, &mut |w, _| rnd_bv(rng, w))
                    }
                }
            });
        }
        envs.push(env);
    }
    (envs, false)
}

/// One record: the DAG as exported from the context it was evaluated in, and per assignment what the real
/// evaluators returned.  Compact positional encoding (shapes follow from the symbol / root types):
///   run = {"e":[value per symbol in SymSeq order], "v":[override node index, override value],
///          "o":[kind 0 ok / 1 panic, value, canon_eq, interns_same], "a":[values from the other entry points]}
pub fn eval_record(ctx: &mut Context, rng: &mut SmallRng, root: ExprRef, id: &str, nrand: usize, with_override: bool) -> J {
    let (nodes, roots) = export_many(ctx, &[root]);
    // symbols in order of first occurrence in the exported table (= SymSeq in Envs.tla)
    let mut order: Vec<(usize, ExprRef)> = symbols_of(ctx, &[root]).into_iter().map(|s| (export_many(ctx, &[root, s]).1[1], s)).collect();
    order.sort();
    let syms: Vec<ExprRef> = order.into_iter().map(|(_, s)| s).collect();
    let (envs, exhaustive) = make_envs(ctx, rng, &syms, nrand);
    let mut all_refs: Vec<ExprRef> = vec![];
    {
        let mut seen = FxHashMap::default();
        let mut todo = vec![root];
        while let Some(e) = todo.pop() {
            if seen.insert(e, ()).is_some() { continue; }
            all_refs.push(e);
            ctx[e].for_each_child(|c| todo.push(*c));
        }
    }
    let inner: Vec<ExprRef> = all_refs.iter().cloned().filter(|e| *e != root && !ctx[*e].is_symbol() && !ctx[*e].is_bv_lit() && e.get_bv_type(ctx).is_some()).collect();
    let only_bv = syms.iter().all(|s| s.get_bv_type(ctx).is_some());
    let is_arr = root.get_type(ctx).is_array();
    let mut runs = vec![];
    let mut panics: Vec<J> = vec![];
    for (ei, env) in envs.iter().enumerate() {
        let mut store = SymbolValueStore::default();
        let mut envj = vec![];
        for (s, v) in syms.iter().zip(env.iter()) {
            match v.to_value() {
                Value::BitVec(b) => store.define_bv(*s, &b),
                Value::Array(a) => store.define_array(*s, a),
            }
            envj.push(v.to_json());
        }
        let mut ov_idx = 0usize;
        let mut ov_val = json!([0]);
        if with_override && !inner.is_empty() && ei % 3 == 1 {
            let n = *inner.choose(rng).unwrap();
            let v = rnd_bv(rng, n.get_bv_type(ctx).unwrap());
            store.define_bv(n, &v);
            ov_idx = export_many(ctx, &[root, n]).1[1];
            ov_val = bits(&v);
        }
        let primary = guarded(|| eval_expr(ctx, &store, root));
        let mut alts: Vec<J> = vec![];
        let o = match &primary {
            Ok(Value::BitVec(b)) => {
                let canon = BitVecValue::from_bit_str(&b.to_bit_str()).unwrap();
                let eq = b.is_equal(&canon) && b.width() == canon.width();
                let i1 = ctx.bv_lit(b);
                let i2 = ctx.bv_lit(&canon);
                json!([0, bits(b), if eq { 1 } else { 0 }, if i1 == i2 { 1 } else { 0 }])
            }
            Ok(Value::Array(a)) => json!([0, carr(a, &[]), 1, 1]),
            Err((loc, msg)) => {
                if panics.len() < 3 { panics.push(json!({"run": ei + 1, "loc": loc, "msg": msg})); }
                json!([1, if is_arr { json!({"def":[],"ents":[],"total":0}) } else { json!([0]) }, 1, 1])
            }
        };
        if primary.is_ok() && ei % 2 == 0 {
            if is_arr {
                if let Ok(a) = guarded(|| eval_array_expr(ctx, &store, root)) { alts.push(carr(&a, &[])); }
            } else {
                if let Ok(b) = guarded(|| eval_bv_expr(ctx, &store, root)) { alts.push(bits(&b)); }
                if only_bv && ov_idx == 0 {
                    let pairs: Vec<(ExprRef, BitVecValue)> = syms.iter().zip(env.iter()).map(|(s, v)| (*s, match v { EnvVal::Bv(b) => b.clone(), _ => unreachable!() })).collect();
                    let map: FxHashMap<ExprRef, BitVecValue> = pairs.iter().cloned().collect();
                    if let Ok(b) = guarded(|| eval_bv_expr(ctx, &map, root)) { alts.push(bits(&b)); }
                    if let Ok(b) = guarded(|| eval_bv_expr(ctx, pairs.as_slice(), root)) { alts.push(bits(&b)); }
                }
            }
        }
        runs.push(json!({"e": envj, "v": [ov_idx, ov_val], "o": o, "a": alts}));
    }
    json!({"ev":"Eval","id": id, "nodes": nodes, "root": roots[0], "exhaustive": if exhaustive {1} else {0}, "runs": runs, "panics": panics})
}

pub fn run(args: &[String]) {
    let out_path = flag(args, "--out").expect("--out");
    let nrand = flag_u(args, "--nrand", 8) as usize;
    let mut out = Out::new(out_path);
    let mut rng = seed_rng(env_seed());
    let mut skipped_div = 0usize;
    if let Some(inp) = flag(args, "--in") {
        for (i, rec) in read_ndjson(inp).iter().enumerate() {
            if has_div(&rec["nodes"]) {
                skipped_div += 1; // documented as unimplemented in eval.rs
                continue;
            }
            let mut ctx = Context::default();
            if ctx_parity_odd(&rec["nodes"]) { precreate_leaves_reversed(&mut ctx, &rec["nodes"]); }
            let refs = import(&mut ctx, &rec["nodes"]);
            let root = refs[rec["root"].as_u64().unwrap() as usize - 1];
            let r = eval_record(&mut ctx, &mut rng, root, &format!("g{i}"), nrand, true);
            out.put(&r);
        }
    }
    // seeded random DAGs (guard: shapes outside the TLA+ enumeration)
    let n = flag_u(args, "--random", 0);
    let cfg = GenCfg::wide(false, 200);
    for i in 0..n {
        let mut ctx = Context::default();
        let widths = [1u32, 2, 3, 4, 8, 31, 32, 33, 63, 64, 65, 127, 128, 129];
        let w = *widths.choose(&mut rng).unwrap();
        let mut syms = vec![];
        for (k, sw) in [w, w, 1, 3, 8, 65].iter().enumerate() {
            syms.push(ctx.bv_symbol(&format!("s{k}_{sw}"), *sw));
        }
        let iw = *[1u32, 2, 4, 8, 16].choose(&mut rng).unwrap();
        let arrs = vec![ctx.array_symbol(&format!("m{iw}_{w}"), iw, w)];
        let d = rng.random_range(2..=4);
        let root = gen_bv(&mut ctx, &mut rng, &cfg, w, d, &syms, &arrs);
        let r = eval_record(&mut ctx, &mut rng, root, &format!("r{i}"), nrand, true);
        out.put(&r);
    }
    let n_out = out.n;
    out.finish();
    println!("{}", json!({"records": n_out, "skipped_div": skipped_div}));
}
