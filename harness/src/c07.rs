//! C07: the simulator.  Drives patronus::sim::Interpreter through TLC-generated call histories on fixed
//! tiny systems and through seeded random histories on random systems; after every call the projected
//! store (all states, then all inputs) is read back with `get` and logged.
use crate::ex::*;
use crate::sys::*;
use crate::{flag, flag_u};
use patronus::sim::{InitKind, Interpreter, Simulator};
use patronus::system::{State, TransitionSystem};

fn store(ctx: &Context, sim: &Interpreter, sys: &TransitionSystem) -> Result<J, (String, String)> {
    guarded(|| {
        let mut v = vec![];
        for s in sys.states.iter() { v.push(cval(&sim.get(s.symbol))); }
        for i in sys.inputs.iter() { v.push(cval(&sim.get(*i))); }
        let _ = ctx;
        J::Array(v)
    })
}

fn ev(name: &str) -> J {
    json!({"ev": name, "kind": "", "seed": 0, "idx": 0, "val": [0], "expr": 0, "id": 0, "store": [], "loc": ""})
}

struct Driver<'a> {
    ctx: &'a Context,
    sys: &'a TransitionSystem,
    sysj: &'a J,
    sim: Interpreter,
    snaps: Vec<u32>,
    out: &'a mut Out,
    dead: bool,
}

impl<'a> Driver<'a> {
    fn log_store(&mut self, mut e: J, r: Result<(), (String, String)>) {
        if let Err((loc, _)) = r {
            e["ev"] = json!("Panic");
            e["loc"] = json!(loc);
            self.dead = true;
            self.out.put(&e);
            return;
        }
        match store(self.ctx, &self.sim, self.sys) {
            Ok(s) => { e["store"] = s; }
            Err((loc, _)) => { e["ev"] = json!("Panic"); e["loc"] = json!(loc); self.dead = true; }
        }
        self.out.put(&e);
    }
    fn init(&mut self, seed: Option<u64>) {
        let mut e = ev("Init");
        e["kind"] = json!(if seed.is_some() { "random" } else { "zero" });
        e["seed"] = json!(seed.unwrap_or(0));
        let kind = match seed { Some(s) => InitKind::Random(s), None => InitKind::Zero };
        let r = guarded(|| self.sim.init(kind));
        self.log_store(e, r);
    }
    fn step(&mut self) {
        let r = guarded(|| self.sim.step());
        self.log_store(ev("Step"), r);
    }
    fn set(&mut self, idx: usize, v: &BitVecValue) {
        let mut e = ev("Set");
        e["idx"] = json!(idx + 1);
        e["val"] = bits(v);
        let sym = self.sys.inputs[idx];
        let r = guarded(|| self.sim.set(sym, v));
        self.log_store(e, r);
    }
    fn get(&mut self, expr: ExprRef, node_idx: usize) {
        let mut e = ev("Get");
        e["expr"] = json!(node_idx);
        match guarded(|| self.sim.get(expr)) {
            Ok(v) => { e["val"] = cval(&v); }
            Err((loc, _)) => { e["ev"] = json!("Panic"); e["loc"] = json!(loc); }
        }
        self.out.put(&e);
    }
    fn snapshot(&mut self) {
        let mut e = ev("Snapshot");
        match guarded(|| self.sim.take_snapshot()) {
            Ok(id) => { e["id"] = json!(id); self.snaps.push(id); }
            Err((loc, _)) => { e["ev"] = json!("Panic"); e["loc"] = json!(loc); self.dead = true; }
        }
        self.out.put(&e);
    }
    fn restore(&mut self, id: u32) {
        let mut e = ev("Restore");
        e["id"] = json!(id);
        let r = guarded(|| self.sim.restore_snapshot(id));
        self.log_store(e, r);
    }
    /// read every output / bad / constraint / next expression
    fn read_all(&mut self) {
        let mut exprs: Vec<(ExprRef, usize)> = vec![];
        for (o, oj) in self.sys.outputs.iter().zip(self.sysj["outputs"].as_array().unwrap()) { exprs.push((o.expr, oj["expr"].as_u64().unwrap() as usize)); }
        for (b, bj) in self.sys.bad_states.iter().zip(self.sysj["bads"].as_array().unwrap()) { exprs.push((*b, bj.as_u64().unwrap() as usize)); }
        for (c, cj) in self.sys.constraints.iter().zip(self.sysj["constraints"].as_array().unwrap()) { exprs.push((*c, cj.as_u64().unwrap() as usize)); }
        for (s, sj) in self.sys.states.iter().zip(self.sysj["states"].as_array().unwrap()) {
            if let Some(n) = s.next { exprs.push((n, sj["next"].as_u64().unwrap() as usize)); }
        }
        for (e, i) in exprs { self.get(e, i); }
    }
}

fn uses_unimplemented(sysj: &J) -> bool {
    crate::c06::has_div(&sysj["nodes"])
}

/// the fixed tiny systems for the exhaustive histories
fn fixed_systems(ctx: &mut Context) -> Vec<TransitionSystem> {
    let mut v = vec![];
    // 0: swap with two inputs
    {
        let mut sys = TransitionSystem::new("swap".into());
        let (a, b) = (ctx.bv_symbol("a", 2), ctx.bv_symbol("b", 2));
        let (i0, i1) = (ctx.bv_symbol("i0", 2), ctx.bv_symbol("i1", 1));
        sys.add_input(ctx, i0); sys.add_input(ctx, i1);
        let one = ctx.bit_vec_val(1, 2); let two = ctx.bit_vec_val(2, 2);
        let nb = ctx.xor(a, i0);
        sys.add_state(ctx, State { symbol: a, init: Some(one), next: Some(b) });
        sys.add_state(ctx, State { symbol: b, init: Some(two), next: Some(nb) });
        let o = ctx.concat(a, b); sys.add_output(ctx, "o".into(), o);
        let bad = ctx.equal(a, b); sys.bad_states.push(bad);
        sys.constraints.push(i1);
        v.push(sys);
    }
    // 1: counter with enable, init chain s2.init = f(s1), state without init
    {
        let mut sys = TransitionSystem::new("chain".into());
        let (c, d, f) = (ctx.bv_symbol("c", 3), ctx.bv_symbol("d", 3), ctx.bv_symbol("f", 2));
        let (i0, i1) = (ctx.bv_symbol("i0", 3), ctx.bv_symbol("i1", 1));
        sys.add_input(ctx, i0); sys.add_input(ctx, i1);
        let five = ctx.bit_vec_val(5, 3);
        let dinit = ctx.not(c);
        let inc = ctx.add(c, i0);
        let cn = ctx.ite(i1, inc, c);
        let dn = ctx.sub(d, c);
        let fs = ctx.slice(d, 1, 0);
        let fnx = ctx.add(f, fs);
        sys.add_state(ctx, State { symbol: c, init: Some(five), next: Some(cn) });
        sys.add_state(ctx, State { symbol: d, init: Some(dinit), next: Some(dn) });
        sys.add_state(ctx, State { symbol: f, init: None, next: Some(fnx) });
        let bad = ctx.greater(d, c); sys.bad_states.push(bad);
        sys.add_output(ctx, "o".into(), dn);
        v.push(sys);
    }
    // 2: array memory, constant state, state without next
    {
        let mut sys = TransitionSystem::new("mem".into());
        let m = ctx.array_symbol("m", 1, 2);
        let (k, q) = (ctx.bv_symbol("k", 2), ctx.bv_symbol("q", 2));
        let (i0, i1) = (ctx.bv_symbol("i0", 2), ctx.bv_symbol("i1", 1));
        sys.add_input(ctx, i0); sys.add_input(ctx, i1);
        let three = ctx.bit_vec_val(3, 2);
        let minit = ctx.array_const(three, 1);
        let data = ctx.add(i0, k);
        let mn = ctx.array_store(m, i1, data);
        let rd = ctx.array_read(m, i1);
        let qinit = ctx.not(k);
        sys.add_state(ctx, State { symbol: m, init: Some(minit), next: Some(mn) });
        sys.add_state(ctx, State { symbol: k, init: Some(three), next: Some(k) });
        sys.add_state(ctx, State { symbol: q, init: Some(qinit), next: None });
        sys.add_output(ctx, "rd".into(), rd);
        let bad = ctx.equal(rd, q); sys.bad_states.push(bad);
        v.push(sys);
    }
    // 3: wide values across the word boundaries
    {
        let mut sys = TransitionSystem::new("wide".into());
        let (x, y) = (ctx.bv_symbol("x", 65), ctx.bv_symbol("y", 129));
        let (i0, i1) = (ctx.bv_symbol("i0", 65), ctx.bv_symbol("i1", 1));
        sys.add_input(ctx, i0); sys.add_input(ctx, i1);
        let xi = ctx.ones(65);
        let yi = ctx.sign_extend(x, 64);
        let xn = ctx.add(x, i0);
        let ys = ctx.concat(x, i0);
        let ysl = ctx.slice(ys, 128, 0);
        let yn = ctx.xor(y, ysl);
        sys.add_state(ctx, State { symbol: x, init: Some(xi), next: Some(xn) });
        sys.add_state(ctx, State { symbol: y, init: Some(yi), next: Some(yn) });
        let hi = ctx.slice(y, 128, 64);
        let bad = ctx.greater_signed(hi, x); sys.bad_states.push(bad);
        sys.add_output(ctx, "o".into(), yn);
        v.push(sys);
    }
    v
}

pub fn run(args: &[String]) {
    let mut out = Out::new(flag(args, "--out").expect("--out"));
    let mut rng = seed_rng(env_seed());
    let mut nh = 0usize;
    // (G) TLC-generated call histories on the fixed systems
    if let Some(inp) = flag(args, "--in") {
        let hist = read_ndjson(inp);
        let mut ctx = Context::default();
        let systems = fixed_systems(&mut ctx);
        for sys in systems.iter() {
            let sysj = export_system(&ctx, sys, false);
            for h in hist.iter() {
                let mut hdr = ev("Sys");
                hdr["sys"] = sysj.clone();
                out.put(&hdr);
                let mut d = Driver { ctx: &ctx, sys, sysj: &sysj, sim: Interpreter::new(&ctx, sys), snaps: vec![], out: &mut out, dead: false };
                let w0 = sys.inputs[0].get_bv_type(&ctx).unwrap();
                for op in h["ops"].as_array().unwrap() {
                    if d.dead { break; }
                    match op.as_str().unwrap() {
                        "init_zero" => d.init(None),
                        "init_rand" => d.init(Some(7)),
                        "step" => d.step(),
                        "set0_a" => d.set(0, &BitVecValue::from_u64(1, w0)),
                        "set0_b" => d.set(0, &BitVecValue::ones(w0)),
                        "set1_a" => d.set(1, &BitVecValue::from_u64(1, 1)),
                        "snap" => d.snapshot(),
                        "restore_first" => { let id = d.snaps[0]; d.restore(id) }
                        "restore_last" => { let id = *d.snaps.last().unwrap(); d.restore(id) }
                        other => panic!("op {other}"),
                    }
                }
                if !d.dead { d.read_all(); }
                nh += 1;
            }
        }
    }
    // (V) random systems, random histories
    let nsys = flag_u(args, "--systems", 0);
    let hlen = flag_u(args, "--len", 30);
    for k in 0..nsys {
        let mut ctx = Context::default();
        let mut cfg = SysCfg::tiny();
        cfg.wide = k % 3 == 2;
        cfg.max_bits = 12;
        cfg.max_state_w = 3;
        let g = gen_sys(&mut ctx, &mut rng, &cfg, "");
        let sysj = export_system(&ctx, &g.sys, false);
        if uses_unimplemented(&sysj) { continue; }
        let mut hdr = ev("Sys");
        hdr["sys"] = sysj.clone();
        out.put(&hdr);
        let mut d = Driver { ctx: &ctx, sys: &g.sys, sysj: &sysj, sim: Interpreter::new(&ctx, &g.sys), snaps: vec![], out: &mut out, dead: false };
        let seed = rng.random_range(0..4u64);
        if rng.random_bool(0.5) { d.init(None) } else { d.init(Some(seed)) }
        for _ in 0..hlen {
            if d.dead { break; }
            match rng.random_range(0..12) {
                0..=3 => d.step(),
                4..=6 if !g.sys.inputs.is_empty() => {
                    let i = rng.random_range(0..g.sys.inputs.len());
                    let w = g.sys.inputs[i].get_bv_type(&ctx).unwrap();
                    let v = rnd_bv(&mut rng, w);
                    d.set(i, &v);
                }
                7 => d.snapshot(),
                8 if !d.snaps.is_empty() => { let id = *d.snaps.choose(&mut rng).unwrap(); d.restore(id) }
                9 => d.read_all(),
                10 => { if rng.random_bool(0.3) { d.init(Some(seed)) } else { d.step() } }
                _ => d.step(),
            }
        }
        if !d.dead { d.read_all(); }
        nh += 1;
    }
    let n = out.n;
    out.finish();
    println!("{}", json!({"records": n, "histories": nh}));
}
