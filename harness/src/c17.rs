//! C17: cone of influence.  Records the three cones (full, init, comb) the real analysis reports for every
//! root of generated systems whose expressions make syntactic dependencies semantically real (xor / add
//! chains), plus random systems as a no-false-alarm guard.
use crate::ex::*;
use crate::sys::*;
use crate::{flag, flag_u};
use patronus::system::analysis::{cone_of_influence, cone_of_influence_comb, cone_of_influence_init};
use patronus::system::{State, TransitionSystem};

/// system in which every syntactic dependency matters: each function is an xor/add chain over a chosen subset
fn chain_sys(ctx: &mut Context, rng: &mut SmallRng) -> TransitionSystem {
    let mut sys = TransitionSystem::new("chain".into());
    let ns = rng.random_range(1..=4usize);
    let ni = rng.random_range(0..=2usize);
    let w = if ns + ni <= 4 && rng.random_bool(0.3) { 2 } else { 1 };
    // the symbols are created in a random order (inputs and states mixed): the position of a state in `sys.states` says
    // nothing about the order of the symbol references
    let mut order: Vec<(bool, usize)> = (0..ns).map(|k| (true, k)).chain((0..ni).map(|k| (false, k))).collect();
    order.shuffle(rng);
    let mut states: Vec<ExprRef> = vec![ctx.zero(1); ns];
    let mut inputs: Vec<ExprRef> = vec![ctx.zero(1); ni];
    for (is_state, k) in order { if is_state { states[k] = ctx.bv_symbol(&format!("s{k}"), w); } else { inputs[k] = ctx.bv_symbol(&format!("in{k}"), w); } }
    for i in inputs.iter() { sys.add_input(ctx, *i); }
    let all: Vec<ExprRef> = states.iter().chain(inputs.iter()).cloned().collect();
    let mut chain = |ctx: &mut Context, rng: &mut SmallRng, pool: &[ExprRef], allow_empty: bool| -> Option<ExprRef> {
        let picks: Vec<ExprRef> = pool.iter().cloned().filter(|_| rng.random_bool(0.45)).collect();
        if picks.is_empty() { return if allow_empty { None } else { Some(ctx.zero(w)) }; }
        let mut acc = picks[0];
        for p in picks[1..].iter() { acc = if rng.random_bool(0.7) { ctx.xor(acc, *p) } else { ctx.add(acc, *p) }; }
        Some(acc)
    };
    for (k, s) in states.iter().enumerate() {
        let init = if rng.random_bool(0.5) { if k > 0 && rng.random_bool(0.6) { chain(ctx, rng, &states[..k], false) } else { let v = rnd_bv(rng, w); Some(ctx.bv_lit(&v)) } } else { None };
        let next = if rng.random_bool(0.15) { Some(*s) } else { chain(ctx, rng, &all, false) };
        sys.add_state(ctx, State { symbol: *s, init, next });
    }
    for k in 0..rng.random_range(1..=2usize) {
        if let Some(o) = chain(ctx, rng, &all, false) { sys.add_output(ctx, format!("o{k}").into(), o); }
    }
    if let Some(b) = chain(ctx, rng, &all, false) {
        let z = ctx.zero(w);
        let bad = ctx.equal(b, z);
        sys.bad_states.push(bad);
    }
    sys
}

fn names(ctx: &Context, v: &[ExprRef]) -> Vec<String> {
    v.iter().map(|e| if ctx[*e].is_symbol() { ctx.get_symbol_name(*e).unwrap().to_string() } else { format!("<non-symbol {}>", usize::from(*e)) }).collect()
}

pub fn run(args: &[String]) {
    let mut out = Out::new(flag(args, "--out").expect("--out"));
    let mut rng = seed_rng(env_seed());
    let mut ncones = 0;
    let n = flag_u(args, "--systems", 0);
    for k in 0..n {
        let mut ctx = Context::default();
        let sys = if k % 4 != 3 { chain_sys(&mut ctx, &mut rng) } else {
            let mut cfg = SysCfg::tiny();
            cfg.all_next = true; cfg.arrays = k % 8 == 7; cfg.max_bits = 5; cfg.max_inputs = 1; cfg.max_input_w = 2;
            gen_sys(&mut ctx, &mut rng, &cfg, "").sys
        };
        // roots: every expression of the system and a few inner nodes
        let mut roots: Vec<ExprRef> = sys.get_all_exprs();
        let mut inner = vec![];
        for r in roots.iter() { ctx[*r].for_each_child(|c| inner.push(*c)); }
        roots.extend(inner);
        roots.sort(); roots.dedup();
        let sysj = export_system_extra(&ctx, &sys, false, &roots);
        out.put(&json!({"ev":"Sys","sys":sysj,"root":0,"full":[],"init":[],"comb":[],"kind":"ok","loc":""}));
        for (i, r) in roots.iter().enumerate() {
            let res = guarded(|| (cone_of_influence(&ctx, &sys, *r), cone_of_influence_init(&ctx, &sys, *r), cone_of_influence_comb(&ctx, &sys, *r)));
            let ridx = sysj["extra"][i].as_u64().unwrap();
            match res {
                Ok((f, ini, c)) => out.put(&json!({"ev":"Cone","sys":{},"root":ridx,"full":names(&ctx, &f),"init":names(&ctx, &ini),"comb":names(&ctx, &c),"kind":"ok","loc":""})),
                Err((loc, _)) => out.put(&json!({"ev":"Cone","sys":{},"root":ridx,"full":[],"init":[],"comb":[],"kind":"panic","loc":loc})),
            }
            ncones += 1;
        }
    }
    let nrec = out.n;
    out.finish();
    println!("{}", json!({"records": nrec, "systems": n, "cones": ncones}));
}
