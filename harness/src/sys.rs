//! Transition systems: JSON export for TSys.tla and a seeded generator of small well-formed systems.
#![allow(dead_code)]
use crate::ex::*;
use patronus::system::{State, TransitionSystem};
use rustc_hash::FxHashMap;

/// Exports a system.  With `positional`, the i-th state symbol is called "s<i>" and the j-th input "i<j>"
/// (two systems that are compared are bound by position, never by name).
pub fn export_system(ctx: &Context, sys: &TransitionSystem, positional: bool) -> J {
    export_system_extra(ctx, sys, positional, &[])
}

/// like `export_system`; `extra` expressions are added to the node table and their indices returned under "extra"
pub fn export_system_extra(ctx: &Context, sys: &TransitionSystem, positional: bool, extra: &[ExprRef]) -> J {
    let mut roots: Vec<ExprRef> = vec![];
    for s in sys.states.iter() {
        roots.push(s.symbol);
        if let Some(i) = s.init { roots.push(i); }
        if let Some(n) = s.next { roots.push(n); }
    }
    roots.extend(sys.inputs.iter().cloned());
    roots.extend(sys.outputs.iter().map(|o| o.expr));
    roots.extend(sys.bad_states.iter().cloned());
    roots.extend(sys.constraints.iter().cloned());
    roots.extend(extra.iter().cloned());
    let mut pos: FxHashMap<ExprRef, String> = FxHashMap::default();
    if positional {
        for (j, i) in sys.inputs.iter().enumerate() { pos.insert(*i, format!("i{}", j + 1)); }
        for (i, s) in sys.states.iter().enumerate() { pos.insert(s.symbol, format!("s{}", i + 1)); }
    }
    let rename = |e: ExprRef| -> Option<String> {
        if positional { Some(pos.get(&e).cloned().unwrap_or_else(|| format!("free:{}", ctx.get_symbol_name(e).unwrap_or("?")))) } else { None }
    };
    let (nodes, ix) = export_many_with(ctx, &roots, &rename);
    let mut p = 0;
    let mut nx = || { p += 1; ix[p - 1] };
    let mut states = vec![];
    for s in sys.states.iter() {
        let sym = nx();
        let init = if s.init.is_some() { nx() } else { 0 };
        let next = if s.next.is_some() { nx() } else { 0 };
        let name = rename(s.symbol).unwrap_or_else(|| ctx.get_symbol_name(s.symbol).unwrap_or("?").to_string());
        states.push(json!({"name": name, "oname": ctx.get_symbol_name(s.symbol).unwrap_or("?"), "t": type_json(s.symbol.get_type(ctx)), "sym": sym, "init": init, "next": next,
                           "is_sym": if ctx[s.symbol].is_symbol() {1} else {0}}));
    }
    let mut inputs = vec![];
    for i in sys.inputs.iter() {
        let sym = nx();
        let name = rename(*i).unwrap_or_else(|| ctx.get_symbol_name(*i).unwrap_or("?").to_string());
        inputs.push(json!({"name": name, "oname": ctx.get_symbol_name(*i).unwrap_or("?"), "t": type_json(i.get_type(ctx)), "sym": sym, "is_sym": if ctx[*i].is_symbol() {1} else {0}}));
    }
    let outputs: Vec<J> = sys.outputs.iter().map(|o| json!({"name": ctx[o.name], "expr": nx()})).collect();
    let bads: Vec<usize> = sys.bad_states.iter().map(|_| nx()).collect();
    let constraints: Vec<usize> = sys.constraints.iter().map(|_| nx()).collect();
    let extra_ix: Vec<usize> = extra.iter().map(|_| nx()).collect();
    json!({"name": sys.name, "nodes": nodes, "states": states, "inputs": inputs, "outputs": outputs, "bads": bads, "constraints": constraints, "extra": extra_ix})
}

#[derive(Clone)]
pub struct SysCfg {
    pub max_states: usize,
    pub max_state_w: u32,
    pub max_inputs: usize,
    pub max_input_w: u32,
    pub arrays: bool,
    pub all_next: bool,
    pub all_init: bool,
    pub max_bits: u32,
    pub depth: u32,
    pub wide: bool,
}
impl SysCfg {
    pub fn tiny() -> Self {
        SysCfg { max_states: 3, max_state_w: 2, max_inputs: 2, max_input_w: 2, arrays: true, all_next: false, all_init: false, max_bits: 7, depth: 3, wide: false }
    }
}

pub struct GenSys {
    pub sys: TransitionSystem,
    pub state_syms: Vec<ExprRef>,
    pub input_syms: Vec<ExprRef>,
}

/// seeded random well-formed system: bit-vector (and optionally one small array) states, with / without
/// init (literals or expressions over earlier states), with / without next, constant states, inputs,
/// constraints, several bad states, sub-expressions shared between the functions, named inner nodes.
pub fn gen_sys(ctx: &mut Context, rng: &mut SmallRng, cfg: &SysCfg, tag: &str) -> GenSys {
    let ecfg = if cfg.wide { GenCfg::wide(false, 64) } else { GenCfg::small() };
    let mut sys = TransitionSystem::new(format!("sys{tag}"));
    let ns = rng.random_range(1..=cfg.max_states);
    let ni = rng.random_range(0..=cfg.max_inputs);
    let mut bits = 0u32;
    // decide the state types first, then create the symbols in a random order: the position of a state in `sys.states`
    // says nothing about the order of the symbol references
    let mut kinds: Vec<(usize, Option<u32>, u32)> = vec![]; // (k, array data width, bv width)
    for k in 0..ns {
        if cfg.arrays && k == ns - 1 && ns > 1 && rng.random_range(0..4) == 0 && bits + 2 <= cfg.max_bits {
            let dw = if bits + 4 <= cfg.max_bits && rng.random_bool(0.4) { 2 } else { 1 };
            bits += 2 * dw;
            kinds.push((k, Some(dw), 0));
        } else {
            let mut w = if cfg.wide { *[1u32, 2, 3, 8, 33, 65].choose(rng).unwrap() } else { rng.random_range(1..=cfg.max_state_w) };
            if !cfg.wide && bits + w > cfg.max_bits { w = 1; }
            if !cfg.wide && bits + w > cfg.max_bits { break; }
            bits += w;
            kinds.push((k, None, w));
        }
    }
    let mut creation: Vec<usize> = (0..kinds.len()).collect();
    if rng.random_bool(0.5) { creation.shuffle(rng); }
    let mut state_syms: Vec<ExprRef> = vec![ctx.zero(1); kinds.len()];
    let mut arr_syms = vec![];
    for j in creation {
        let (k, arr, w) = kinds[j];
        state_syms[j] = match arr { Some(dw) => { let m = ctx.array_symbol(&format!("{tag}m{k}"), 1, dw); arr_syms.push(m); m } None => ctx.bv_symbol(&format!("{tag}s{k}"), w) };
    }
    let mut input_syms = vec![];
    let mut ibits = 0;
    for k in 0..ni {
        let w = if cfg.wide { *[1u32, 2, 8, 65].choose(rng).unwrap() } else { rng.random_range(1..=cfg.max_input_w) };
        if !cfg.wide && ibits + w > 4 { break; }
        ibits += w;
        let e = ctx.bv_symbol(&format!("{tag}in{k}"), w);
        input_syms.push(e);
        sys.add_input(ctx, e);
    }
    let bv_states: Vec<ExprRef> = state_syms.iter().cloned().filter(|s| s.get_bv_type(ctx).is_some()).collect();
    let mut all_syms = bv_states.clone();
    all_syms.extend(input_syms.iter().cloned());
    let mut pool: Vec<ExprRef> = vec![]; // shared sub-expressions
    let mut draw = |ctx: &mut Context, rng: &mut SmallRng, w: u32, syms: &[ExprRef], arrs: &[ExprRef], pool: &mut Vec<ExprRef>| -> ExprRef {
        let cands: Vec<ExprRef> = pool.iter().cloned().filter(|e| e.get_bv_type(ctx) == Some(w)).collect();
        if !cands.is_empty() && rng.random_bool(0.35) {
            // wrap a shared sub-expression
            let s = *cands.choose(rng).unwrap();
            let o = gen_bv(ctx, rng, &ecfg, w, 1, syms, arrs);
            return match rng.random_range(0..3) { 0 => s, 1 => ctx.xor(s, o), _ => ctx.and(s, o) };
        }
        let d = rng.random_range(1..=cfg.depth);
        let e = gen_bv(ctx, rng, &ecfg, w, d, syms, arrs);
        pool.push(e);
        e
    };
    for (k, &s) in state_syms.iter().enumerate() {
        let earlier: Vec<ExprRef> = state_syms[..k].iter().cloned().filter(|s| s.get_bv_type(ctx).is_some()).collect();
        let (init, next) = match s.get_type(ctx) {
            Type::BV(w) => {
                let init = match rng.random_range(0..if cfg.all_init { 2 } else { 4 }) {
                    0 => { let v = rnd_bv(rng, w); Some(ctx.bv_lit(&v)) }
                    1 if !earlier.is_empty() => {
                        // sometimes a bare earlier state of the same width (with `next` = the same node below: a delayed copy)
                        let same: Vec<ExprRef> = earlier.iter().cloned().filter(|e| e.get_bv_type(ctx) == Some(w)).collect();
                        if !same.is_empty() && rng.random_range(0..3) == 0 { Some(*same.choose(rng).unwrap()) }
                        else { let e = gen_bv(ctx, rng, &ecfg, w, 2, &earlier, &[]); Some(e) }
                    }
                    1 => Some(ctx.zero(w)),
                    2 => { let v = rnd_bv(rng, w); Some(ctx.bv_lit(&v)) }
                    _ => None,
                };
                // a state whose init reads other states is, one time in three, re-loaded with that very node every cycle
                let reads_state = init.map(|i| !symbols_of(ctx, &[i]).is_empty()).unwrap_or(false);
                let next = match if reads_state && rng.random_range(0..3) == 0 { 2 } else { rng.random_range(0..10) } {
                    0 if !cfg.all_next => None,
                    1 => Some(s), // constant state
                    // next is the very node that is also the init expression (a state re-loaded with its reset
                    // expression every cycle: a constant for a literal, a delayed copy for an earlier state)
                    2 if init.is_some() => init,
                    _ => Some(draw(ctx, rng, w, &all_syms, &arr_syms, &mut pool)),
                };
                (init, next)
            }
            Type::Array(t) => {
                let init = if rng.random_bool(0.6) || cfg.all_init { let v = rnd_bv(rng, t.data_width); let d = ctx.bv_lit(&v); Some(ctx.array_const(d, t.index_width)) } else { None };
                let i = draw(ctx, rng, t.index_width, &all_syms, &[], &mut pool);
                let d = draw(ctx, rng, t.data_width, &all_syms, &[s], &mut pool);
                let st = ctx.array_store(s, i, d);
                let next = if rng.random_bool(0.3) { let c = draw(ctx, rng, 1, &all_syms, &[], &mut pool); ctx.ite(c, st, s) } else { st };
                (init, Some(next))
            }
        };
        sys.add_state(ctx, State { symbol: s, init, next });
    }
    for _ in 0..rng.random_range(0..=2u32) {
        if rng.random_bool(0.6) {
            let c = draw(ctx, rng, 1, &all_syms, &arr_syms, &mut pool);
            sys.constraints.push(c);
        }
    }
    for _ in 0..rng.random_range(1..=3u32) {
        let b = draw(ctx, rng, 1, &all_syms, &arr_syms, &mut pool);
        sys.bad_states.push(b);
    }
    for k in 0..rng.random_range(0..=2u32) {
        let w = rng.random_range(1..=3);
        let o = draw(ctx, rng, w, &all_syms, &arr_syms, &mut pool);
        sys.add_output(ctx, format!("{tag}out{k}").into(), o);
    }
    // pass-through ports: an output that is a bare input or state symbol; like the btor2 reader, the label of such a line
    // becomes the entry of the system's name table for that symbol (the symbol itself keeps its name)
    if !all_syms.is_empty() && rng.random_range(0..3) == 0 {
        let e = *all_syms.choose(rng).unwrap();
        sys.add_output(ctx, format!("{tag}fw").into(), e);
        if input_syms.contains(&e) || rng.random_bool(0.5) { let nm = ctx.string(format!("{tag}fw").into()); sys.names[e] = Some(nm); }
    }
    // name some inner nodes
    for e in pool.iter() {
        if rng.random_range(0..4) == 0 && !ctx[*e].is_symbol() && sys.names[*e].is_none() {
            let nm = ctx.string(format!("{tag}n{}", usize::from(*e)).into());
            sys.names[*e] = Some(nm);
        }
    }
    GenSys { sys, state_syms, input_syms }
}
