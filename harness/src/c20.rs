//! C20: value summaries.  Evaluates operation recipes on the real ValueSummary<ExprRef> (TLC-generated
//! partitions for coalesce, seeded random recipe trees for everything else).  After every operation the
//! entries are read through the verification hook, every guard is tabulated over all assignments with
//! GuardCtx::verif_eval, and the table is logged together with an expression denoting the expected value.
use crate::ex::*;
use crate::{flag, flag_u};
use patronus_dse::{GuardCtx, ValueSummary};
use std::collections::HashMap;

type VS = ValueSummary<ExprRef>;

/// terminals of guards: Boolean symbols and a few 1-bit non-Boolean-connective expressions over x, y
#[derive(Clone, Copy)]
enum Term { Sym(usize), Ugt, Eq, Bit0 }

struct World {
    ctx: Context,
    gc: GuardCtx,
    bsyms: Vec<ExprRef>,  // Boolean terminals b0..b{n-1}
    x: ExprRef,
    y: ExprRef,
    terms: Vec<(ExprRef, Term)>,
}

impl World {
    fn new(nb: usize) -> Self {
        let mut ctx = Context::default();
        let bsyms: Vec<ExprRef> = (0..nb).map(|i| ctx.bv_symbol(&format!("b{i}"), 1)).collect();
        let x = ctx.bv_symbol("x", 2);
        let y = ctx.bv_symbol("y", 2);
        let mut terms: Vec<(ExprRef, Term)> = bsyms.iter().enumerate().map(|(i, s)| (*s, Term::Sym(i))).collect();
        let ugt = ctx.greater(x, y);
        let eq = ctx.equal(x, y);
        let b0 = ctx.slice(x, 0, 0);
        terms.push((ugt, Term::Ugt));
        terms.push((eq, Term::Eq));
        terms.push((b0, Term::Bit0));
        World { ctx, gc: GuardCtx::default(), bsyms, x, y, terms }
    }
    /// symbols in the order used for the assignment index: b0.., x, y
    fn nenv(&self) -> usize { 1usize << (self.bsyms.len() + 4) }
    fn term_values(&self, e: usize) -> HashMap<ExprRef, bool> {
        let nb = self.bsyms.len();
        let xv = (e >> nb) & 3;
        let yv = (e >> (nb + 2)) & 3;
        self.terms.iter().map(|(r, t)| (*r, match t {
            Term::Sym(i) => (e >> i) & 1 == 1,
            Term::Ugt => xv > yv,
            Term::Eq => xv == yv,
            Term::Bit0 => xv & 1 == 1,
        })).collect()
    }
    fn table(&self, guard: boolean_expression::BDDFunc) -> Vec<u8> {
        (0..self.nenv()).map(|e| if self.gc.verif_eval(guard, &self.term_values(e)) { 1 } else { 0 }).collect()
    }
    fn log(&self, out: &mut Out, op: &str, id: &str, vs: &VS, den: ExprRef) {
        let ents = vs.verif_entries();
        let mut roots = vec![den];
        roots.extend(ents.iter().map(|(_, v)| *v));
        // make sure every symbol is part of the table so that the assignment order is well defined
        roots.extend(self.bsyms.iter().cloned());
        roots.push(self.x); roots.push(self.y);
        let (nodes, ix) = export_many(&self.ctx, &roots);
        let entries: Vec<J> = ents.iter().enumerate().map(|(i, (g, _))| json!({"g": self.table(*g), "v": ix[1 + i]})).collect();
        let syms: Vec<J> = self.bsyms.iter().map(|s| json!({"name": self.ctx.get_symbol_name(*s).unwrap(), "w": 1}))
            .chain([json!({"name":"x","w":2}), json!({"name":"y","w":2})]).collect();
        out.put(&json!({"ev":"Op","id":id,"op":op,"kind":"ok","loc":"","nodes":nodes,"den":ix[0],"syms":syms,"entries":entries,"len":vs.len()}));
    }
    fn log_panic(&self, out: &mut Out, op: &str, id: &str, loc: &str) {
        out.put(&json!({"ev":"Op","id":id,"op":op,"kind":"panic","loc":loc,"nodes":[],"den":0,"syms":[],"entries":[],"len":0}));
    }
}

fn rnd_bool_expr(w: &mut World, rng: &mut SmallRng, d: u32) -> ExprRef {
    if d == 0 || rng.random_range(0..4) == 0 {
        return match rng.random_range(0..10) {
            0 => w.ctx.get_true(),
            1 => w.ctx.get_false(),
            2 | 3 => w.terms[w.bsyms.len() + rng.random_range(0..3usize)].0,
            _ => *w.bsyms.choose(rng).unwrap(),
        };
    }
    let a = rnd_bool_expr(w, rng, d - 1);
    let b = rnd_bool_expr(w, rng, d - 1);
    match rng.random_range(0..5) { 0 => w.ctx.not(a), 1 => w.ctx.and(a, b), 2 => w.ctx.or(a, b), 3 => w.ctx.xor(a, b), _ => w.ctx.implies(a, b) }
}

fn rnd_data_leaf(w: &mut World, rng: &mut SmallRng) -> ExprRef {
    match rng.random_range(0..5) { 0 => w.x, 1 => w.y, k => w.ctx.bit_vec_val((k - 2) as u64, 2) }
}

struct Stop;

/// evaluates a random recipe tree for a data summary; returns (summary, denotation expression)
fn data(w: &mut World, rng: &mut SmallRng, out: &mut Out, id: &str, d: u32) -> Result<(VS, ExprRef), Stop> {
    if d == 0 || rng.random_range(0..5) == 0 {
        let v = rnd_data_leaf(w, rng);
        let vs = VS::new(&mut w.gc, v);
        w.log(out, "New", id, &vs, v);
        return Ok((vs, v));
    }
    match rng.random_range(0..7) {
        0 | 1 => {
            let (a, da) = data(w, rng, out, id, d - 1)?;
            let (b, db) = data(w, rng, out, id, d - 1)?;
            let r = guarded(|| VS::apply_bin_op(&mut w.ctx, &mut w.gc, |c, p, q| c.xor(p, q), a, b));
            let den = w.ctx.xor(da, db);
            finish(w, out, "ApplyBinOp", id, r, den)
        }
        2..=4 => {
            let (c, dc) = boolean(w, rng, out, id, d - 1)?;
            let (a, da) = data(w, rng, out, id, d - 1)?;
            let (b, db) = data(w, rng, out, id, d - 1)?;
            let r = guarded(|| VS::apply_ite(&mut w.ctx, &mut w.gc, c, a, b));
            let den = w.ctx.ite(dc, da, db);
            finish(w, out, "ApplyIte", id, r, den)
        }
        _ => {
            let (mut a, da) = data(w, rng, out, id, d - 1)?;
            let r = guarded(|| { a.coalesce(&mut w.gc); a });
            finish(w, out, "Coalesce", id, r, da)
        }
    }
}

fn finish(w: &mut World, out: &mut Out, op: &str, id: &str, r: Result<VS, (String, String)>, den: ExprRef) -> Result<(VS, ExprRef), Stop> {
    match r {
        Ok(vs) => { w.log(out, op, id, &vs, den); Ok((vs, den)) }
        Err((loc, _)) => { w.log_panic(out, op, id, &loc); Err(Stop) }
    }
}

fn boolean(w: &mut World, rng: &mut SmallRng, out: &mut Out, id: &str, d: u32) -> Result<(VS, ExprRef), Stop> {
    if d == 0 || rng.random_range(0..4) == 0 {
        let v = rnd_bool_expr(w, rng, 2);
        let vs = VS::new(&mut w.gc, v);
        w.log(out, "NewBool", id, &vs, v);
        return Ok((vs, v));
    }
    match rng.random_range(0..8) {
        0 | 1 => {
            let (a, da) = boolean(w, rng, out, id, d - 1)?;
            let (b, db) = boolean(w, rng, out, id, d - 1)?;
            let k = rng.random_range(0..3);
            let r = guarded(|| match k {
                0 => VS::apply_bin_op(&mut w.ctx, &mut w.gc, |c, p, q| c.and(p, q), a, b),
                1 => VS::apply_bin_op(&mut w.ctx, &mut w.gc, |c, p, q| c.or(p, q), a, b),
                _ => VS::apply_bin_op(&mut w.ctx, &mut w.gc, |c, p, q| c.xor(p, q), a, b),
            });
            let den = match k { 0 => w.ctx.and(da, db), 1 => w.ctx.or(da, db), _ => w.ctx.xor(da, db) };
            finish(w, out, "ApplyBinOpBool", id, r, den)
        }
        2 | 3 => {
            let (c, dc) = boolean(w, rng, out, id, d - 1)?;
            let (a, da) = boolean(w, rng, out, id, d - 1)?;
            let (b, db) = boolean(w, rng, out, id, d - 1)?;
            let r = guarded(|| VS::apply_ite(&mut w.ctx, &mut w.gc, c, a, b));
            let den = w.ctx.ite(dc, da, db);
            finish(w, out, "ApplyIteBool", id, r, den)
        }
        4 | 5 => {
            let (mut a, da) = boolean(w, rng, out, id, d - 1)?;
            let r = guarded(|| { a.import_into_guard(&mut w.ctx, &mut w.gc); a });
            finish(w, out, "ImportIntoGuard", id, r, da)
        }
        _ => {
            let (mut a, da) = boolean(w, rng, out, id, d - 1)?;
            let r = guarded(|| { a.coalesce(&mut w.gc); a });
            finish(w, out, "CoalesceBool", id, r, da)
        }
    }
}

/// Boolean expression that is true exactly on the given set of valuations (1-based) of b0, b1
fn set_expr(w: &mut World, set: &[u64], nb: usize) -> ExprRef {
    let mut acc = w.ctx.get_false();
    for v in set {
        let k = (*v - 1) as usize;
        let mut m = w.ctx.get_true();
        for j in 0..nb {
            let lit = if (k >> j) & 1 == 1 { w.bsyms[j] } else { w.ctx.not(w.bsyms[j]) };
            m = w.ctx.and(m, lit);
        }
        acc = w.ctx.or(acc, m);
    }
    acc
}

pub fn run(args: &[String]) {
    let mut out = Out::new(flag(args, "--out").expect("--out"));
    let mut rng = seed_rng(env_seed());
    let mut n_rec = 0;
    // (G) every ordered partition with values from the Coalesce model: build it with an ite chain, coalesce
    if let Some(inp) = flag(args, "--in") {
        for (i, rec) in read_ndjson(inp).iter().enumerate() {
            let mut w = World::new(2);
            let blocks = rec["s"].as_array().unwrap();
            let id = format!("g{i}");
            let vals: Vec<ExprRef> = blocks.iter().map(|b| match b[1].as_str().unwrap() { "a" => w.x, "b" => w.y, _ => w.ctx.bit_vec_val(1, 2) }).collect();
            // right-nested: ite(G1, v1, ite(G2, v2, ... vn))
            let n = blocks.len();
            let mut cur = VS::new(&mut w.gc, vals[n - 1]);
            let mut den = vals[n - 1];
            let mut ok = true;
            for k in (0..n - 1).rev() {
                let set: Vec<u64> = blocks[k][0].as_array().unwrap().iter().map(|x| x.as_u64().unwrap()).collect();
                let ge = set_expr(&mut w, &set, 2);
                let c = VS::new(&mut w.gc, ge);
                let t = VS::new(&mut w.gc, vals[k]);
                match guarded(|| VS::apply_ite(&mut w.ctx, &mut w.gc, c, t, cur)) {
                    Ok(v) => { cur = v; den = w.ctx.ite(ge, vals[k], den); }
                    Err((loc, _)) => { w.log_panic(&mut out, "ApplyIte", &id, &loc); ok = false; cur = VS::new(&mut w.gc, vals[0]); break; }
                }
            }
            if !ok { continue; }
            w.log(&mut out, "Built", &id, &cur, den);
            match guarded(|| { cur.coalesce(&mut w.gc); cur }) {
                Ok(v) => w.log(&mut out, "Coalesce", &id, &v, den),
                Err((loc, _)) => w.log_panic(&mut out, "Coalesce", &id, &loc),
            }
            n_rec += 1;
        }
    }
    // (V) random recipe trees
    let nb = flag_u(args, "--terminals", 2) as usize;
    for i in 0..flag_u(args, "--random", 0) {
        let mut w = World::new(nb);
        let id = format!("r{i}");
        let d = rng.random_range(2..=4);
        if rng.random_bool(0.6) { let _ = data(&mut w, &mut rng, &mut out, &id, d); } else { let _ = boolean(&mut w, &mut rng, &mut out, &id, d); }
        // expr_to_guard on a deeper Boolean expression with non-Boolean sub-terms
        let e = rnd_bool_expr(&mut w, &mut rng, 3);
        match guarded(|| w.gc.expr_to_guard(&w.ctx, e)) {
            Ok(g) => {
                // log as a two-entry summary (guard -> true, not guard -> false)
                let ng = w.gc.not(g);
                let (t, f) = (w.ctx.get_true(), w.ctx.get_false());
                let mut roots = vec![e, t, f];
                roots.extend(w.bsyms.iter().cloned()); roots.push(w.x); roots.push(w.y);
                let (nodes, ix) = export_many(&w.ctx, &roots);
                let syms: Vec<J> = w.bsyms.iter().map(|s| json!({"name": w.ctx.get_symbol_name(*s).unwrap(), "w": 1})).chain([json!({"name":"x","w":2}), json!({"name":"y","w":2})]).collect();
                out.put(&json!({"ev":"Op","id":id,"op":"ExprToGuard","kind":"ok","loc":"","nodes":nodes,"den":ix[0],"syms":syms,
                                "entries":[{"g": w.table(g), "v": ix[1]}, {"g": w.table(ng), "v": ix[2]}],"len":2}));
            }
            Err((loc, _)) => w.log_panic(&mut out, "ExprToGuard", &id, &loc),
        }
        n_rec += 1;
    }
    let n = out.n;
    out.finish();
    println!("{}", json!({"records": n, "recipes": n_rec}));
}
