//! C11 / C09: system-level transformations and the btor2 write -> read round trip.  Each record carries the
//! system before and after (own node tables, symbols bound by position) for Trace_SysEq.tla.
use crate::ex::*;
use crate::sys::*;
use crate::{flag, flag_u};
use patronus::system::TransitionSystem;

fn pair_record(id: &str, kind: &str, ctx: &Context, before: &TransitionSystem, after: Result<&TransitionSystem, (String, String)>, nenv: u32) -> J {
    let b = export_system(ctx, before, true);
    match after {
        Ok(a) => {
            let aj = export_system(ctx, a, true);
            // position maps: states correspond by position; inputs by identity of the symbol (replace) or position
            let smap: Vec<usize> = (1..=a.states.len()).collect();
            let autogen = |n: &str, pre: &str| n.strip_prefix(pre).map(|r| !r.is_empty() && r.chars().all(|c| c.is_ascii_digit())).unwrap_or(false);
            let (imap, zero): (Vec<usize>, Vec<u8>) = if kind == "replace" {
                let imap: Vec<usize> = a.inputs.iter().map(|i| before.inputs.iter().position(|x| x == i).map(|p| p + 1).unwrap_or(0)).collect();
                let zero = (1..=before.inputs.len()).map(|p| if imap.contains(&p) { 0 } else { 1 }).collect();
                (imap, zero)
            } else {
                ((1..=a.inputs.len()).collect(), vec![0; before.inputs.len()])
            };
            // anonymous = auto-generated name (`_input_<n>` / `_state_<n>`): must be removed; names without that prefix must stay
            let must: Vec<u8> = before.inputs.iter().map(|i| { let n = ctx.get_symbol_name(*i).unwrap_or(""); if autogen(n, "_input_") || autogen(n, "_state_") { 1 } else { 0 } }).collect();
            let may: Vec<u8> = before.inputs.iter().map(|i| { let n = ctx.get_symbol_name(*i).unwrap_or(""); if n.starts_with("_input") || n.starts_with("_state") { 1 } else { 0 } }).collect();
            json!({"ev":"Pair","id":id,"kind":kind,"kindres":"ok","loc":"","before":b,"after":aj,"smap":smap,"imap":imap,"zero":zero,"must":must,"may":may,"nenv":nenv})
        }
        Err((loc, msg)) => json!({"ev":"Pair","id":id,"kind":kind,"kindres":"panic","loc":format!("{loc}: {msg}"),"before":b,"after":b,"smap":[],"imap":[],"zero":[],"must":[],"may":[],"nenv":nenv}),
    }
}

fn transforms(out: &mut Out, id: &str, ctx: &mut Context, sys: &TransitionSystem, nenv: u32) {
    let mut s1 = sys.clone();
    let r = guarded(|| patronus::system::transform::simplify_expressions(ctx, &mut s1));
    out.put(&pair_record(id, "simplify", ctx, sys, r.map(|_| &s1), nenv));
    let mut s2 = sys.clone();
    let r = guarded(|| patronus::system::transform::replace_anonymous_inputs_with_zero(ctx, &mut s2));
    out.put(&pair_record(id, "replace", ctx, sys, r.map(|_| &s2), nenv));
}

fn btor_files(max_kb: u64) -> Vec<String> {
    let mut v = vec![];
    fn walk(d: &std::path::Path, v: &mut Vec<String>, max_kb: u64) {
        if let Ok(rd) = std::fs::read_dir(d) {
            let mut ents: Vec<_> = rd.flatten().collect();
            ents.sort_by_key(|e| e.path());
            for e in ents {
                let p = e.path();
                if p.is_dir() { walk(&p, v, max_kb); }
                else if let Some(x) = p.extension() {
                    if (x == "btor" || x == "btor2") && e.metadata().map(|m| m.len() <= max_kb * 1024).unwrap_or(false) { v.push(p.to_string_lossy().to_string()); }
                }
            }
        }
    }
    walk(std::path::Path::new("/repo/inputs"), &mut v, max_kb);
    v
}

/// systems with anonymous inputs, signals that are at once input / output / state-next, named inner nodes
fn gen_c11_sys(ctx: &mut Context, rng: &mut SmallRng, k: u64) -> TransitionSystem {
    let mut cfg = SysCfg::tiny();
    cfg.wide = k % 4 == 3;
    cfg.max_bits = 8;
    let mut g = gen_sys(ctx, rng, &cfg, "");
    // add anonymous inputs used by next / bad / output functions
    let n_anon = rng.random_range(0..=2);
    for a in 0..n_anon {
        let w = rng.random_range(1..=2);
        let name = if rng.random_bool(0.5) { format!("_input_{a}") } else { format!("_state_{a}") };
        let sym = if rng.random_bool(0.15) { ctx.array_symbol(&name, 1, w) } else { ctx.bv_symbol(&name, w) };
        g.sys.add_input(ctx, sym);
        let use_bv = match sym.get_type(ctx) { Type::BV(_) => sym, Type::Array(_) => { let z = ctx.zero(1); ctx.array_read(sym, z) } };
        // mix it into an existing function
        if let Some(st) = g.sys.states.iter_mut().find(|s| s.next.is_some() && s.symbol.get_bv_type(ctx).is_some()) {
            let sw = st.symbol.get_bv_type(ctx).unwrap();
            let ext = if sw > w { ctx.zero_extend(use_bv, sw - w) } else if sw < w { ctx.slice(use_bv, sw - 1, 0) } else { use_bv };
            st.next = Some(ctx.xor(st.next.unwrap(), ext));
        }
        if rng.random_bool(0.5) { let z = ctx.zero(w); let b = ctx.equal(use_bv, z); let b2 = ctx.not(b); g.sys.bad_states.push(b2); }
        if rng.random_bool(0.3) { g.sys.add_output(ctx, format!("anon{a}").into(), sym); }
    }
    // a signal that is at once input and output
    if !g.sys.inputs.is_empty() && rng.random_bool(0.4) { let i = g.sys.inputs[0]; g.sys.add_output(ctx, "in_as_out".into(), i); }
    g.sys
}

pub fn run(args: &[String]) {
    let mut out = Out::new(flag(args, "--out").expect("--out"));
    let mut rng = seed_rng(env_seed());
    let mut n_sys = 0;
    for k in 0..flag_u(args, "--systems", 0) {
        let mut ctx = Context::default();
        let sys = gen_c11_sys(&mut ctx, &mut rng, k);
        transforms(&mut out, &format!("r{k}"), &mut ctx, &sys, 24);
        n_sys += 1;
    }
    let max_kb = flag_u(args, "--max-kb", 0);
    if max_kb > 0 {
        for f in btor_files(max_kb) {
            if let Some((mut ctx, sys)) = patronus::btor2::parse_file(&f) {
                let id = f.replace("/repo/inputs/", "");
                transforms(&mut out, &id, &mut ctx, &sys, flag_u(args, "--nenv", 8) as u32);
                n_sys += 1;
            }
        }
    }
    let n = out.n;
    out.finish();
    println!("{}", json!({"records": n, "systems": n_sys}));
}

// -------------------------------------------------------------------------------------------------
// C09

/// restrict a generated system to what the btor2 writer accepts
fn writer_ok(ctx: &Context, sys: &TransitionSystem) -> bool {
    let declared: std::collections::HashSet<ExprRef> = sys.inputs.iter().cloned().chain(sys.states.iter().map(|s| s.symbol)).collect();
    let mut roots = vec![];
    for s in sys.states.iter() { if let Some(i) = s.init { roots.push(i); } if let Some(n) = s.next { roots.push(n); } }
    roots.extend(sys.outputs.iter().map(|o| o.expr));
    roots.extend(sys.bad_states.iter().cloned());
    roots.extend(sys.constraints.iter().cloned());
    if !symbols_of(ctx, &roots).iter().all(|s| declared.contains(s)) { return false; }
    // no state lacking both init and next (the reader legitimately turns it into an input)
    if sys.states.iter().any(|s| s.init.is_none() && s.next.is_none()) { return false; }
    true
}

fn names_json(ctx: &Context, sys: &TransitionSystem) -> J {
    let flags = |v: &Vec<String>| -> Vec<u8> {
        v.iter().map(|n| {
            let auto = ["_input_", "_state_", "_output_", "_bad_", "_constraint_"].iter().any(|p| n.strip_prefix(p).map(|r| !r.is_empty() && r.chars().all(|c| c.is_ascii_digit())).unwrap_or(false));
            let unique = v.iter().filter(|m| *m == n).count() == 1;
            if !auto && unique && !n.is_empty() { 1 } else { 0 }
        }).collect()
    };
    let all: Vec<String> = sys.inputs.iter().map(|i| ctx.get_symbol_name(*i).unwrap_or("?").to_string())
        .chain(sys.states.iter().map(|s| ctx.get_symbol_name(s.symbol).unwrap_or("?").to_string()))
        .chain(sys.outputs.iter().map(|o| ctx[o.name].to_string())).collect();
    json!({
        "all": all, "explicit": flags(&all),
        "inputs": sys.inputs.iter().map(|i| ctx.get_symbol_name(*i).unwrap_or("?").to_string()).collect::<Vec<_>>(),
        "states": sys.states.iter().map(|s| ctx.get_symbol_name(s.symbol).unwrap_or("?").to_string()).collect::<Vec<_>>(),
        "outputs": sys.outputs.iter().map(|o| ctx[o.name].to_string()).collect::<Vec<_>>(),
    })
}

/// names that contain, start with or end in the words the reader uses for its default names
const TRICKY_NAMES: [&str; 18] = ["fsm_state", "data_input", "x_bad", "y_output_3", "c_constraint", "_state_shadow", "_input_", "state", "input",
    "a.b_state_12", "bad", "_bad_x", "next_output", "r_state_0", "_output", "in_constraint_7", "_state_", "output_state"];

/// The names clause on a PARSED system with explicit names: the written text of `sys`, with the names on its input /
/// state / output lines replaced by tricky ones, is parsed (system P); P's explicit distinct names must survive
/// write + read.  Also used as is (rename = false) for systems that were parsed from a file.
fn names_cycle(out: &mut Out, id: &str, ctx: &mut Context, sys: &TransitionSystem, text: Option<&str>) {
    let parsed: Option<TransitionSystem> = match text {
        None => Some(sys.clone()),
        Some(t) => {
            let mut k = 0usize;
            let renamed: Vec<String> = t.lines().map(|l| {
                let toks: Vec<&str> = l.split_whitespace().collect();
                let named = toks.len() >= 2 && ((["input", "state"].contains(&toks[1]) && toks.len() == 4) || (toks[1] == "output" && toks.len() == 4));
                if named {
                    let nm = if k < TRICKY_NAMES.len() { TRICKY_NAMES[k].to_string() } else { format!("{}x{}", TRICKY_NAMES[k % TRICKY_NAMES.len()], k) };
                    k += 1;
                    format!("{} {} {} {}", toks[0], toks[1], toks[2], nm)
                } else { l.to_string() }
            }).collect();
            if k == 0 { return; }
            match guarded(|| patronus::btor2::parse_str(ctx, &(renamed.join("\n") + "\n"), Some(&sys.name))) { Ok(Some(p)) => Some(p), _ => None }
        }
    };
    let p = match parsed { Some(p) => p, None => return };
    let syms: Vec<ExprRef> = p.inputs.iter().cloned().chain(p.states.iter().map(|s| s.symbol)).collect();
    let nprop = p.bad_states.iter().chain(p.constraints.iter()).filter(|e| syms.contains(e)).count();
    let cls = if nprop >= 2 { "symbol-is-property-more-than-once" } else { "" };
    let t2 = match guarded(|| patronus::btor2::serialize_to_str(ctx, &p)) { Ok(t) => t, Err(_) => return };
    match guarded(|| patronus::btor2::parse_str(ctx, &t2, Some(&sys.name))) {
        Ok(Some(q)) => out.put(&json!({"ev":"Names","id":format!("{id}:parsed"),"kind":"names","kindres":"ok","loc":cls,"first":names_json(ctx, &p),"second":names_json(ctx, &q)})),
        _ => out.put(&json!({"ev":"Names","id":format!("{id}:parsed"),"kind":"names","kindres":"second cycle failed","loc":"","first":names_json(ctx, &p),"second":names_json(ctx, &p)})),
    }
}

fn round_trip(out: &mut Out, id: &str, ctx: &mut Context, sys: &TransitionSystem, nenv: u32) {
    let text = match guarded(|| patronus::btor2::serialize_to_str(ctx, sys)) {
        Ok(t) => t,
        Err((loc, msg)) => {
            out.put(&json!({"ev":"Pair","id":id,"kind":"roundtrip","kindres":"writer-panic","loc":format!("{loc}: {msg}"),"before":export_system(ctx, sys, true),"after":export_system(ctx, sys, true),"smap":[],"imap":[],"zero":[],"must":[],"may":[],"nenv":nenv}));
            return;
        }
    };
    let back = guarded(|| patronus::btor2::parse_str(ctx, &text, Some(&sys.name)));
    match back {
        Ok(Some(s2)) => {
            let mut rec = pair_record(id, "roundtrip", ctx, sys, Ok(&s2), nenv);
            rec["text"] = json!(text.lines().take(60).collect::<Vec<_>>());
            out.put(&rec);
            // second cycle: explicit distinct names of a parsed system survive a further write / read
            if let Ok(t2) = guarded(|| patronus::btor2::serialize_to_str(ctx, &s2)) {
                if let Ok(Some(s3)) = guarded(|| patronus::btor2::parse_str(ctx, &t2, Some(&sys.name))) {
                    // input class: how often a bare state / input symbol is itself a bad state or constraint
                    let syms: Vec<ExprRef> = s2.inputs.iter().cloned().chain(s2.states.iter().map(|s| s.symbol)).collect();
                    let nprop = s2.bad_states.iter().chain(s2.constraints.iter()).filter(|e| syms.contains(e)).count();
                    let cls = if nprop >= 2 { "symbol-is-property-more-than-once" } else { "" };
                    out.put(&json!({"ev":"Names","id":id,"kind":"names","kindres":"ok","loc":cls,"first":names_json(ctx, &s2),"second":names_json(ctx, &s3)}));
                } else {
                    out.put(&json!({"ev":"Names","id":id,"kind":"names","kindres":"second cycle failed","loc":"","first":names_json(ctx, &s2),"second":names_json(ctx, &s2)}));
                }
            }
        }
        Ok(None) => {
            let mut rec = pair_record(id, "roundtrip", ctx, sys, Ok(sys), nenv);
            rec["kindres"] = json!("reader rejected the written text");
            rec["text"] = json!(text.lines().take(60).collect::<Vec<_>>());
            out.put(&rec);
        }
        Err(e) => { let mut rec = pair_record(id, "roundtrip", ctx, sys, Err(e), nenv); rec["text"] = json!(text.lines().take(60).collect::<Vec<_>>()); out.put(&rec); }
    }
}

pub fn run_c09(args: &[String]) {
    let mut out = Out::new(flag(args, "--out").expect("--out"));
    let mut rng = seed_rng(env_seed());
    let mut n_sys = 0;
    let mut skipped = 0;
    for k in 0..flag_u(args, "--systems", 0) {
        let mut ctx = Context::default();
        let mut cfg = SysCfg::tiny();
        cfg.wide = k % 4 == 3;
        cfg.max_bits = 8;
        let g = gen_sys(&mut ctx, &mut rng, &cfg, "");
        if !writer_ok(&ctx, &g.sys) { skipped += 1; continue; }
        round_trip(&mut out, &format!("r{k}"), &mut ctx, &g.sys, 24);
        if let Ok(t) = guarded(|| patronus::btor2::serialize_to_str(&ctx, &g.sys)) { names_cycle(&mut out, &format!("r{k}"), &mut ctx, &g.sys, Some(&t)); }
        n_sys += 1;
    }
    let max_kb = flag_u(args, "--max-kb", 0);
    if max_kb > 0 {
        for f in btor_files(max_kb) {
            if let Some((mut ctx, sys)) = patronus::btor2::parse_file(&f) {
                let id = f.replace("/repo/inputs/", "");
                round_trip(&mut out, &id, &mut ctx, &sys, flag_u(args, "--nenv", 8) as u32);
                names_cycle(&mut out, &id, &mut ctx, &sys, None);
                n_sys += 1;
            }
        }
    }
    let n = out.n;
    out.finish();
    println!("{}", json!({"records": n, "systems": n_sys, "skipped_not_writer_ok": skipped}));
}
