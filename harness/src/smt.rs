//! Independent SMT-LIB front end: text -> s-expressions -> tagged node tables for SmtLib.tla.
//! Shares nothing with patronus' lexer / parser.
#![allow(dead_code)]
use serde_json::{Value as J, json};
use std::collections::HashMap;

#[derive(Debug, Clone, PartialEq)]
pub enum Sx {
    Atom(String),
    Quoted(String),
    Str(String),
    List(Vec<Sx>),
}

pub fn tokenize(s: &str) -> Result<Vec<Sx>, String> {
    #[derive(Debug)]
    enum T { Open, Close, A(Sx) }
    let cs: Vec<char> = s.chars().collect();
    let mut i = 0;
    let mut toks = vec![];
    while i < cs.len() {
        let c = cs[i];
        if c.is_whitespace() { i += 1; }
        else if c == ';' { while i < cs.len() && cs[i] != '\n' { i += 1; } }
        else if c == '(' { toks.push(T::Open); i += 1; }
        else if c == ')' { toks.push(T::Close); i += 1; }
        else if c == '|' {
            let mut j = i + 1;
            while j < cs.len() && cs[j] != '|' { j += 1; }
            if j >= cs.len() { return Err("unterminated quoted symbol".into()); }
            toks.push(T::A(Sx::Quoted(cs[i + 1..j].iter().collect())));
            i = j + 1;
        } else if c == '"' {
            let mut j = i + 1;
            let mut out = String::new();
            loop {
                if j >= cs.len() { return Err("unterminated string".into()); }
                if cs[j] == '"' { if j + 1 < cs.len() && cs[j + 1] == '"' { out.push('"'); j += 2; continue; } break; }
                out.push(cs[j]); j += 1;
            }
            toks.push(T::A(Sx::Str(out)));
            i = j + 1;
        } else {
            let mut j = i;
            while j < cs.len() && !cs[j].is_whitespace() && !"()|\";".contains(cs[j]) { j += 1; }
            toks.push(T::A(Sx::Atom(cs[i..j].iter().collect())));
            i = j;
        }
    }
    // build trees
    let mut stack: Vec<Vec<Sx>> = vec![vec![]];
    for t in toks {
        match t {
            T::Open => stack.push(vec![]),
            T::Close => {
                if stack.len() < 2 { return Err("unbalanced: too many closing parentheses".into()); }
                let l = stack.pop().unwrap();
                stack.last_mut().unwrap().push(Sx::List(l));
            }
            T::A(a) => stack.last_mut().unwrap().push(a),
        }
    }
    if stack.len() != 1 { return Err("unbalanced: missing closing parenthesis".into()); }
    Ok(stack.pop().unwrap())
}

fn none_sort() -> J { json!({"k":"none","w":0,"ik":"","iw":0,"dk":"","dw":0}) }
fn atom_is(x: &Sx, s: &str) -> bool { matches!(x, Sx::Atom(a) if a == s) }

pub fn sort(x: &Sx) -> Result<J, String> {
    match x {
        Sx::Atom(a) if a == "Bool" => { let mut s = none_sort(); s["k"] = json!("bool"); Ok(s) }
        Sx::List(l) if l.len() == 3 && atom_is(&l[0], "_") && atom_is(&l[1], "BitVec") => {
            if let Sx::Atom(n) = &l[2] { let mut s = none_sort(); s["k"] = json!("bv"); s["w"] = json!(n.parse::<u64>().map_err(|e| e.to_string())?); Ok(s) } else { Err("bitvec width".into()) }
        }
        Sx::List(l) if l.len() == 3 && atom_is(&l[0], "Array") => {
            let (i, d) = (sort(&l[1])?, sort(&l[2])?);
            if i["k"] == "arr" || d["k"] == "arr" { return Err("nested array sort".into()); }
            let mut s = none_sort();
            s["k"] = json!("arr"); s["ik"] = i["k"].clone(); s["iw"] = i["w"].clone(); s["dk"] = d["k"].clone(); s["dw"] = d["w"].clone();
            Ok(s)
        }
        other => Err(format!("sort {other:?}")),
    }
}

fn base() -> J { json!({"k":"","name":"","codes":[],"bits":[],"v":0,"f":"","ix":[],"a":[],"sort":none_sort()}) }
fn codes(s: &str) -> Vec<u32> { s.chars().map(|c| c as u32).collect() }

/// appends the nodes of term `x` (let-bound names resolve to the bound term's node), returns its 1-based index
pub fn term(x: &Sx, nodes: &mut Vec<J>, scope: &HashMap<String, usize>) -> Result<usize, String> {
    let mut add = |n: J, nodes: &mut Vec<J>| { nodes.push(n); nodes.len() };
    match x {
        Sx::Quoted(t) => {
            if let Some(i) = scope.get(t) { return Ok(*i); }
            let mut n = base(); n["k"] = json!("id"); n["name"] = json!(t); n["codes"] = json!(codes(t)); n["v"] = json!(1);
            Ok(add(n, nodes))
        }
        Sx::Str(_) => Err("string literal in term".into()),
        Sx::Atom(t) => {
            let mut n = base();
            if t == "true" || t == "false" { n["k"] = json!("bool"); n["v"] = json!(if t == "true" { 1 } else { 0 }); }
            else if let Some(b) = t.strip_prefix("#b") {
                if b.is_empty() || !b.chars().all(|c| c == '0' || c == '1') { return Err(format!("bad binary literal {t}")); }
                n["k"] = json!("lit"); n["bits"] = json!(b.chars().rev().map(|c| if c == '1' { 1 } else { 0 }).collect::<Vec<u8>>());
            } else if let Some(h) = t.strip_prefix("#x") {
                if h.is_empty() { return Err("bad hex literal".into()); }
                let mut bs = vec![];
                for c in h.chars().rev() { let d = c.to_digit(16).ok_or(format!("bad hex literal {t}"))?; for i in 0..4 { bs.push((d >> i) & 1); } }
                n["k"] = json!("lit"); n["bits"] = json!(bs);
            } else {
                if let Some(i) = scope.get(t) { return Ok(*i); }
                n["k"] = json!("id"); n["name"] = json!(t); n["codes"] = json!(codes(t));
            }
            Ok(add(n, nodes))
        }
        Sx::List(l) => {
            if l.is_empty() { return Err("empty application".into()); }
            match &l[0] {
                Sx::List(h) => {
                    if h.len() >= 2 && atom_is(&h[0], "_") {
                        // ((_ extract h l) t) etc.  /  (_ bvN w) literals are not produced by the writer
                        let f = if let Sx::Atom(f) = &h[1] { f.clone() } else { return Err("indexed identifier".into()) };
                        let mut ix = vec![];
                        for t in &h[2..] { if let Sx::Atom(a) = t { ix.push(a.parse::<u64>().map_err(|e| e.to_string())?); } else { return Err("index".into()); } }
                        let mut a = vec![];
                        for t in &l[1..] { a.push(term(t, nodes, scope)?); }
                        let mut n = base(); n["k"] = json!("app"); n["f"] = json!(f); n["ix"] = json!(ix); n["a"] = json!(a);
                        Ok(add(n, nodes))
                    } else if h.len() == 3 && atom_is(&h[0], "as") && atom_is(&h[1], "const") {
                        let mut a = vec![];
                        for t in &l[1..] { a.push(term(t, nodes, scope)?); }
                        let mut n = base(); n["k"] = json!("app"); n["f"] = json!("asconst"); n["a"] = json!(a); n["sort"] = sort(&h[2])?;
                        Ok(add(n, nodes))
                    } else { Err(format!("head {h:?}")) }
                }
                Sx::Atom(f) if f == "let" => {
                    if l.len() != 3 { return Err("let".into()); }
                    let mut inner = scope.clone();
                    if let Sx::List(bs) = &l[1] {
                        // parallel let: bindings are evaluated in the outer scope
                        let mut news = vec![];
                        for b in bs {
                            if let Sx::List(p) = b {
                                if p.len() != 2 { return Err("let binding".into()); }
                                let name = match &p[0] { Sx::Atom(a) | Sx::Quoted(a) => a.clone(), _ => return Err("let name".into()) };
                                news.push((name, term(&p[1], nodes, scope)?));
                            } else { return Err("let binding".into()); }
                        }
                        for (n, i) in news { inner.insert(n, i); }
                    } else { return Err("let bindings".into()); }
                    term(&l[2], nodes, &inner)
                }
                Sx::Atom(f) if f == "_" => {
                    // (_ bv5 8)
                    if l.len() == 3 { if let (Sx::Atom(v), Sx::Atom(w)) = (&l[1], &l[2]) { if let Some(d) = v.strip_prefix("bv") {
                        let w: usize = w.parse().map_err(|_| "bv width".to_string())?;
                        let val: u128 = d.parse().map_err(|_| "bv value".to_string())?;
                        let mut n = base(); n["k"] = json!("lit"); n["bits"] = json!((0..w).map(|i| if i < 128 { ((val >> i) & 1) as u8 } else { 0 }).collect::<Vec<u8>>());
                        return Ok(add(n, nodes));
                    } } }
                    Err("indexed identifier as term".into())
                }
                Sx::Atom(f) => {
                    let mut a = vec![];
                    for t in &l[1..] { a.push(term(t, nodes, scope)?); }
                    let mut n = base(); n["k"] = json!("app"); n["f"] = json!(f); n["a"] = json!(a);
                    Ok(add(n, nodes))
                }
                other => Err(format!("head {other:?}")),
            }
        }
    }
}

fn name_of(x: &Sx) -> Result<(String, u8), String> {
    match x { Sx::Atom(a) => Ok((a.clone(), 0)), Sx::Quoted(a) => Ok((a.clone(), 1)), _ => Err("name".into()) }
}

/// one command as a tagged record
pub fn command(x: &Sx) -> Result<J, String> {
    let l = if let Sx::List(l) = x { l } else { return Err("command is not a list".into()) };
    let c = if let Some(Sx::Atom(c)) = l.first() { c.clone() } else { return Err("command name".into()) };
    let mut r = json!({"c":c,"name":"","codes":[],"quoted":0,"sort":none_sort(),"nodes":[],"roots":[],"n":0,"raw":""});
    let empty = HashMap::new();
    match c.as_str() {
        "declare-const" => { if l.len() != 3 { return Err("declare-const arity".into()); } let (n, q) = name_of(&l[1])?; r["name"] = json!(n); r["codes"] = json!(codes(&n)); r["quoted"] = json!(q); r["sort"] = sort(&l[2])?; }
        "declare-fun" => { if l.len() != 4 || l[2] != Sx::List(vec![]) { return Err("declare-fun".into()); } let (n, q) = name_of(&l[1])?; r["c"] = json!("declare-const"); r["name"] = json!(n); r["codes"] = json!(codes(&n)); r["quoted"] = json!(q); r["sort"] = sort(&l[3])?; }
        "define-fun" => {
            if l.len() != 5 || l[2] != Sx::List(vec![]) { return Err("define-fun".into()); }
            let (n, q) = name_of(&l[1])?;
            let mut nodes = vec![];
            let root = term(&l[4], &mut nodes, &empty)?;
            r["name"] = json!(n); r["codes"] = json!(codes(&n)); r["quoted"] = json!(q); r["sort"] = sort(&l[3])?; r["nodes"] = json!(nodes); r["roots"] = json!([root]);
        }
        "assert" => { if l.len() != 2 { return Err("assert arity".into()); } let mut nodes = vec![]; let root = term(&l[1], &mut nodes, &empty)?; r["nodes"] = json!(nodes); r["roots"] = json!([root]); }
        "get-value" => {
            if l.len() != 2 { return Err("get-value arity".into()); }
            let ts = if let Sx::List(ts) = &l[1] { ts } else { return Err("get-value".into()) };
            let mut nodes = vec![]; let mut roots = vec![];
            for t in ts { roots.push(term(t, &mut nodes, &empty)?); }
            r["nodes"] = json!(nodes); r["roots"] = json!(roots);
        }
        "check-sat-assuming" => {
            if l.len() != 2 { return Err("check-sat-assuming arity".into()); }
            let ts = if let Sx::List(ts) = &l[1] { ts } else { return Err("check-sat-assuming".into()) };
            let mut nodes = vec![]; let mut roots = vec![];
            for t in ts { roots.push(term(t, &mut nodes, &empty)?); }
            r["nodes"] = json!(nodes); r["roots"] = json!(roots);
        }
        "push" | "pop" => { r["n"] = json!(if l.len() > 1 { if let Sx::Atom(a) = &l[1] { a.parse::<u64>().map_err(|e| e.to_string())? } else { 1 } } else { 1 }); }
        "set-logic" | "set-option" | "set-info" | "check-sat" | "exit" | "get-unsat-assumptions" | "get-model" => {
            r["raw"] = json!(l[1..].iter().map(|t| match t { Sx::Atom(a) | Sx::Quoted(a) | Sx::Str(a) => a.clone(), _ => "(..)".into() }).collect::<Vec<_>>().join(" "));
        }
        other => return Err(format!("unknown command {other}")),
    }
    Ok(r)
}

/// all commands of a script
pub fn script(text: &str) -> Result<Vec<J>, String> {
    tokenize(text)?.iter().map(command).collect()
}
