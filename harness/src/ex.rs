//! Exporter / importer between patronus IR and the JSON node tables read by the TLA+ specs.
//! Every record field has exactly one shape (TLC has no dynamic type test).
#![allow(dead_code)]
pub use baa::*;
pub use patronus::expr::*;
pub use rand::prelude::*;
pub use rand::rngs::SmallRng;
use rustc_hash::FxHashMap;
pub use serde_json::{Value as J, json};
use std::io::{BufRead, Write};

pub fn bits(v: &BitVecValue) -> J {
    let s = v.to_bit_str();
    J::Array(s.chars().rev().map(|c| json!(if c == '1' { 1 } else { 0 })).collect())
}
pub fn bits_ref(v: BitVecValueRef<'_>) -> J {
    let o: BitVecValue = v.into();
    bits(&o)
}
pub fn from_bits(j: &J) -> BitVecValue {
    let s: String = j.as_array().unwrap().iter().rev().map(|b| if b.as_u64().unwrap() == 1 { '1' } else { '0' }).collect();
    BitVecValue::from_bit_str(&s).unwrap()
}
/// array value read index by index through `select` (never through the dense->sparse conversion)
pub fn arr(v: &ArrayValue) -> J {
    let iw = v.index_width();
    assert!(iw <= 12);
    let ents: Vec<J> = (0..(1u64 << iw))
        .map(|i| {
            let ix = BitVecValue::from_u64(i, iw);
            json!([bits(&ix), bits(&v.select(&ix))])
        })
        .collect();
    json!({"t":"arr","bits":[],"iw": iw, "dw": v.data_width(), "def": bits(&BitVecValue::zero(v.data_width())), "ents": ents})
}
pub fn bvval(v: &BitVecValue) -> J {
    json!({"t":"bv","bits":bits(v),"iw":0,"dw":0,"def":[],"ents":[]})
}
pub fn val(v: &Value) -> J {
    match v {
        Value::BitVec(b) => bvval(b),
        Value::Array(a) => arr(a),
    }
}
/// compact value: a bit-vector is its bit list, an array is {"def","ents"}; the shape follows from the type
pub fn cval(v: &Value) -> J {
    match v {
        Value::BitVec(b) => bits(b),
        Value::Array(a) => carr(a, &[]),
    }
}
pub fn carr(v: &ArrayValue, probes: &[BitVecValue]) -> J {
    let iw = v.index_width();
    if iw <= 8 {
        let ents: Vec<J> = (0..(1u64 << iw)).map(|i| { let ix = BitVecValue::from_u64(i, iw); json!([bits(&ix), bits(&v.select(&ix))]) }).collect();
        json!({"def": bits(&BitVecValue::zero(v.data_width())), "ents": ents, "total": 1})
    } else {
        // wide index space: default unknown to the exporter, values at probe indices only
        let ents: Vec<J> = probes.iter().map(|p| json!([bits(p), bits(&v.select(p))])).collect();
        json!({"def": [], "ents": ents, "total": 0})
    }
}
/// parse a tagged value back
pub fn from_val(j: &J) -> Value {
    if j["t"] == "bv" {
        Value::BitVec(from_bits(&j["bits"]))
    } else {
        let iw = j["iw"].as_u64().unwrap() as WidthInt;
        let def = from_bits(&j["def"]);
        let mut a = ArrayValue::new_sparse(iw, &def);
        for e in j["ents"].as_array().unwrap() {
            a.store(&from_bits(&e[0]), &from_bits(&e[1]));
        }
        Value::Array(a)
    }
}

fn node(op: &str, name: &str, w: u64, b: J, a: &[usize], hi: u64, lo: u64, by: u64, iw: u64, dw: u64) -> J {
    json!({"op":op,"name":name,"w":w,"bits":b,"a":a,"hi":hi,"lo":lo,"by":by,"iw":iw,"dw":dw,"ow":0})
}

pub fn node_json(ctx: &Context, e: ExprRef, a: &[usize]) -> J {
    let n0 = |op: &str, w: WidthInt| node(op, "", w as u64, json!([]), a, 0, 0, 0, 0, 0);
    match &ctx[e] {
        Expr::BVSymbol { name, width } => node("bvsym", &ctx[*name], *width as u64, json!([]), a, 0, 0, 0, 0, 0),
        Expr::BVLiteral(v) => node("bvlit", "", v.width() as u64, bits_ref(v.get(ctx)), a, 0, 0, 0, 0, 0),
        Expr::BVZeroExt { by, width, .. } => node("zext", "", *width as u64, json!([]), a, 0, 0, *by as u64, 0, 0),
        Expr::BVSignExt { by, width, .. } => node("sext", "", *width as u64, json!([]), a, 0, 0, *by as u64, 0, 0),
        Expr::BVSlice { hi, lo, .. } => node("slice", "", 0, json!([]), a, *hi as u64, *lo as u64, 0, 0, 0),
        Expr::BVNot(_, w) => n0("not", *w),
        Expr::BVNegate(_, w) => n0("neg", *w),
        Expr::BVEqual(..) => n0("eq", 1),
        Expr::BVImplies(..) => n0("implies", 1),
        Expr::BVGreater(..) => n0("ugt", 1),
        Expr::BVGreaterSigned(_, _, w) => { let mut n = n0("sgt", 1); n["ow"] = json!(*w); n }
        Expr::BVGreaterEqual(..) => n0("uge", 1),
        Expr::BVGreaterEqualSigned(_, _, w) => { let mut n = n0("sge", 1); n["ow"] = json!(*w); n }
        Expr::BVConcat(_, _, w) => n0("concat", *w),
        Expr::BVAnd(_, _, w) => n0("and", *w),
        Expr::BVOr(_, _, w) => n0("or", *w),
        Expr::BVXor(_, _, w) => n0("xor", *w),
        Expr::BVShiftLeft(_, _, w) => n0("shl", *w),
        Expr::BVArithmeticShiftRight(_, _, w) => n0("ashr", *w),
        Expr::BVShiftRight(_, _, w) => n0("lshr", *w),
        Expr::BVAdd(_, _, w) => n0("add", *w),
        Expr::BVMul(_, _, w) => n0("mul", *w),
        Expr::BVSignedDiv(_, _, w) => n0("sdiv", *w),
        Expr::BVUnsignedDiv(_, _, w) => n0("udiv", *w),
        Expr::BVSignedMod(_, _, w) => n0("smod", *w),
        Expr::BVSignedRem(_, _, w) => n0("srem", *w),
        Expr::BVUnsignedRem(_, _, w) => n0("urem", *w),
        Expr::BVSub(_, _, w) => n0("sub", *w),
        Expr::BVArrayRead { width, .. } => n0("read", *width),
        Expr::BVIte { .. } => n0("ite", 0),
        Expr::ArraySymbol { name, index_width, data_width } => node("arrsym", &ctx[*name], 0, json!([]), a, 0, 0, 0, *index_width as u64, *data_width as u64),
        Expr::ArrayConstant { index_width, data_width, .. } => node("arrconst", "", 0, json!([]), a, 0, 0, 0, *index_width as u64, *data_width as u64),
        Expr::ArrayEqual(..) => n0("arreq", 1),
        Expr::ArrayStore { .. } => n0("store", 0),
        Expr::ArrayIte { .. } => n0("arrite", 0),
    }
}

/// Exports the DAG below `roots` as a node table (children before parents, 1-based child indices).
/// `rename` lets a caller replace symbol names (positional binding of two systems).
pub fn export_many_with(ctx: &Context, roots: &[ExprRef], rename: &dyn Fn(ExprRef) -> Option<String>) -> (J, Vec<usize>) {
    let mut idx: FxHashMap<ExprRef, usize> = FxHashMap::default();
    let mut nodes: Vec<J> = vec![];
    let mut todo: Vec<(ExprRef, bool)> = roots.iter().rev().map(|r| (*r, false)).collect();
    while let Some((e, ready)) = todo.pop() {
        if idx.contains_key(&e) {
            continue;
        }
        let mut kids = vec![];
        ctx[e].for_each_child(|c| kids.push(*c));
        if !ready && kids.iter().any(|k| !idx.contains_key(k)) {
            todo.push((e, true));
            for k in kids.iter().rev() {
                if !idx.contains_key(k) {
                    todo.push((*k, false));
                }
            }
            continue;
        }
        let a: Vec<usize> = kids.iter().map(|k| idx[k]).collect();
        let mut n = node_json(ctx, e, &a);
        if ctx[e].is_symbol() {
            if let Some(nm) = rename(e) {
                n["name"] = json!(nm);
            }
        }
        nodes.push(n);
        idx.insert(e, nodes.len());
    }
    (J::Array(nodes), roots.iter().map(|r| idx[r]).collect())
}
pub fn export_many(ctx: &Context, roots: &[ExprRef]) -> (J, Vec<usize>) {
    export_many_with(ctx, roots, &|_| None)
}
pub fn export(ctx: &Context, root: ExprRef) -> J {
    let (n, r) = export_many(ctx, &[root]);
    json!({"nodes": n, "root": r[0]})
}

fn u(n: &J, k: &str) -> u32 {
    n[k].as_u64().unwrap_or(0) as u32
}

/// Creates the leaves (symbols, literals) of a node table in REVERSE table order, so that a following `import` meets
/// them with references whose order is the opposite of the table order (nothing may depend on reference order).
pub fn precreate_leaves_reversed(ctx: &mut Context, nodes: &J) {
    for n in nodes.as_array().unwrap().iter().rev() {
        match n["op"].as_str().unwrap() {
            "bvsym" => { ctx.bv_symbol(n["name"].as_str().unwrap(), u(n, "w")); }
            "arrsym" => { ctx.array_symbol(n["name"].as_str().unwrap(), u(n, "iw"), u(n, "dw")); }
            "bvlit" => { ctx.bv_lit(&from_bits(&n["bits"])); }
            _ => {}
        }
    }
}

/// deterministic coin per node table (half of the inputs get the reversed leaf order)
pub fn ctx_parity_odd(nodes: &J) -> bool { nodes.as_array().map(|a| a.len() % 2 == 1).unwrap_or(false) }

/// Builds a node table inside `ctx` through the public builder API. Returns one ref per node.
pub fn import(ctx: &mut Context, nodes: &J) -> Vec<ExprRef> {
    let mut refs: Vec<ExprRef> = vec![];
    for n in nodes.as_array().unwrap() {
        let a: Vec<ExprRef> = n["a"].as_array().unwrap().iter().map(|i| refs[i.as_u64().unwrap() as usize - 1]).collect();
        let e = match n["op"].as_str().unwrap() {
            "bvsym" => ctx.bv_symbol(n["name"].as_str().unwrap(), u(n, "w")),
            "arrsym" => ctx.array_symbol(n["name"].as_str().unwrap(), u(n, "iw"), u(n, "dw")),
            "bvlit" => ctx.bv_lit(&from_bits(&n["bits"])),
            "zext" => ctx.zero_extend(a[0], u(n, "by")),
            "sext" => ctx.sign_extend(a[0], u(n, "by")),
            "slice" => ctx.slice(a[0], u(n, "hi"), u(n, "lo")),
            "not" => ctx.not(a[0]),
            "neg" => ctx.negate(a[0]),
            "and" => ctx.and(a[0], a[1]),
            "or" => ctx.or(a[0], a[1]),
            "xor" => ctx.xor(a[0], a[1]),
            "add" => ctx.add(a[0], a[1]),
            "sub" => ctx.sub(a[0], a[1]),
            "mul" => ctx.mul(a[0], a[1]),
            "udiv" => ctx.div(a[0], a[1]),
            "sdiv" => ctx.signed_div(a[0], a[1]),
            "smod" => ctx.signed_mod(a[0], a[1]),
            "srem" => ctx.signed_remainder(a[0], a[1]),
            "urem" => ctx.remainder(a[0], a[1]),
            "shl" => ctx.shift_left(a[0], a[1]),
            "lshr" => ctx.shift_right(a[0], a[1]),
            "ashr" => ctx.arithmetic_shift_right(a[0], a[1]),
            "eq" | "arreq" => ctx.equal(a[0], a[1]),
            "implies" => ctx.implies(a[0], a[1]),
            "ugt" => ctx.greater(a[0], a[1]),
            "uge" => ctx.greater_or_equal(a[0], a[1]),
            "sgt" => ctx.greater_signed(a[0], a[1]),
            "sge" => ctx.greater_or_equal_signed(a[0], a[1]),
            "concat" => ctx.concat(a[0], a[1]),
            "ite" | "arrite" => ctx.ite(a[0], a[1], a[2]),
            "read" => ctx.array_read(a[0], a[1]),
            "store" => ctx.array_store(a[0], a[1], a[2]),
            "arrconst" => ctx.array_const(a[0], u(n, "iw")),
            other => panic!("import: {other}"),
        };
        refs.push(e);
    }
    refs
}

/// all symbols below the roots, in first-visit order
pub fn symbols_of(ctx: &Context, roots: &[ExprRef]) -> Vec<ExprRef> {
    let mut seen: FxHashMap<ExprRef, ()> = FxHashMap::default();
    let mut out = vec![];
    let mut todo: Vec<ExprRef> = roots.iter().rev().cloned().collect();
    while let Some(e) = todo.pop() {
        if seen.insert(e, ()).is_some() {
            continue;
        }
        if ctx[e].is_symbol() {
            out.push(e);
        }
        let mut kids = vec![];
        ctx[e].for_each_child(|c| kids.push(*c));
        for k in kids.into_iter().rev() {
            todo.push(k);
        }
    }
    out
}

pub fn type_json(t: Type) -> J {
    match t {
        Type::BV(w) => json!({"k":"bv","w":w,"iw":0,"dw":0}),
        Type::Array(a) => json!({"k":"arr","w":0,"iw":a.index_width,"dw":a.data_width}),
    }
}

// ---------------------------------------------------------------------------------------------
// panics and hangs in the code under test are data

thread_local! { static IN_GUARD: std::cell::Cell<bool> = const { std::cell::Cell::new(false) }; }
thread_local! { static LAST_PANIC: std::cell::RefCell<(String, String)> = const { std::cell::RefCell::new((String::new(), String::new())) }; }

pub fn install_panic_hook() {
    std::panic::set_hook(Box::new(|info| {
        let loc = info.location().map(|l| format!("{}:{}", l.file(), l.line())).unwrap_or_default();
        let msg = if let Some(s) = info.payload().downcast_ref::<&str>() {
            s.to_string()
        } else if let Some(s) = info.payload().downcast_ref::<String>() {
            s.clone()
        } else {
            "?".to_string()
        };
        if !IN_GUARD.with(|g| g.get()) {
            eprintln!("harness panic at {loc}: {msg}");
        }
        LAST_PANIC.with(|p| *p.borrow_mut() = (loc, msg));
    }));
}

/// shortens absolute registry / repo paths so that findings are stable
pub fn short_loc(loc: &str) -> String {
    if let Some(p) = loc.find("/repo/") {
        return loc[p + 6..].to_string();
    }
    if let Some(p) = loc.find("registry/src/") {
        let rest = &loc[p + 13..];
        if let Some(q) = rest.find('/') {
            return rest[q + 1..].to_string();
        }
    }
    loc.to_string()
}

/// Runs `f`, turning a panic into `Err((location, message))`.
pub fn guarded<T>(f: impl FnOnce() -> T) -> Result<T, (String, String)> {
    let prev = IN_GUARD.with(|g| g.replace(true));
    let r = std::panic::catch_unwind(std::panic::AssertUnwindSafe(f));
    IN_GUARD.with(|g| g.set(prev));
    match r {
        Ok(v) => Ok(v),
        Err(_) => {
            let (loc, msg) = LAST_PANIC.with(|p| p.borrow().clone());
            Err((short_loc(&loc), msg.chars().take(200).collect()))
        }
    }
}

// ---------------------------------------------------------------------------------------------
// NDJSON i/o

pub fn read_ndjson(path: &str) -> Vec<J> {
    let f = std::fs::File::open(path).unwrap_or_else(|e| panic!("open {path}: {e}"));
    std::io::BufReader::new(f)
        .lines()
        .map(|l| l.unwrap())
        .filter(|l| !l.trim().is_empty())
        .map(|l| serde_json::from_str(&l).unwrap())
        .collect()
}

pub struct Out {
    w: std::io::BufWriter<std::fs::File>,
    pub n: usize,
}
impl Out {
    pub fn new(path: &str) -> Self {
        Out { w: std::io::BufWriter::new(std::fs::File::create(path).unwrap()), n: 0 }
    }
    pub fn put(&mut self, j: &J) {
        serde_json::to_writer(&mut self.w, j).unwrap();
        self.w.write_all(b"\n").unwrap();
        self.n += 1;
    }
    pub fn finish(mut self) {
        self.w.flush().unwrap();
    }
}

pub fn seed_rng(seed: u64) -> SmallRng {
    SmallRng::seed_from_u64(seed)
}
pub fn env_seed() -> u64 {
    std::env::var("VERIF_SEED").ok().and_then(|s| s.parse().ok()).unwrap_or(1)
}

// ---------------------------------------------------------------------------------------------
// random expressions (guard against shapes the TLA+ enumeration does not contain)

pub fn rnd_bv(rng: &mut SmallRng, w: u32) -> BitVecValue {
    match rng.random_range(0..8) {
        0 => BitVecValue::zero(w),
        1 => BitVecValue::ones(w),
        2 => BitVecValue::from_u64(1, w),
        3 => BitVecValue::from_u64((w as u64) & ((1u64 << w.min(63)) - 1), w),
        4 => {
            // msb only
            let mut s = String::from("1");
            s.push_str(&"0".repeat(w as usize - 1));
            BitVecValue::from_bit_str(&s).unwrap()
        }
        _ => BitVecValue::random(rng, w),
    }
}

pub struct GenCfg {
    pub div: bool,
    pub mul_max_w: u32,
    pub arrays: bool,
    /// operand widths used below comparison operators
    pub cmp_widths: Vec<u32>,
}
impl GenCfg {
    pub fn wide(div: bool, mul_max_w: u32) -> Self {
        GenCfg { div, mul_max_w, arrays: true, cmp_widths: vec![1, 2, 3, 8, 33, 65] }
    }
    pub fn small() -> Self {
        GenCfg { div: false, mul_max_w: 8, arrays: true, cmp_widths: vec![1, 2, 3] }
    }
}

pub fn gen_bv(ctx: &mut Context, rng: &mut SmallRng, cfg: &GenCfg, w: u32, d: u32, syms: &[ExprRef], arrs: &[ExprRef]) -> ExprRef {
    if d == 0 || rng.random_range(0..6) == 0 {
        let cands: Vec<_> = syms.iter().filter(|s| s.get_bv_type(ctx) == Some(w)).cloned().collect();
        if !cands.is_empty() && rng.random_bool(0.65) {
            return *cands.choose(rng).unwrap();
        }
        let v = rnd_bv(rng, w);
        return ctx.bv_lit(&v);
    }
    macro_rules! g {
        ($w:expr) => {
            gen_bv(ctx, rng, cfg, $w, d - 1, syms, arrs)
        };
    }
    if w == 1 && rng.random_bool(0.6) {
        let ow = *cfg.cmp_widths.choose(rng).unwrap();
        let (a, b) = (g!(ow), g!(ow));
        return match rng.random_range(0..7) {
            0 => ctx.equal(a, b),
            1 => ctx.greater(a, b),
            2 => ctx.greater_signed(a, b),
            3 => ctx.greater_or_equal(a, b),
            4 => ctx.greater_or_equal_signed(a, b),
            5 if cfg.arrays && !arrs.is_empty() => {
                let m = *arrs.choose(rng).unwrap();
                let t = m.get_array_type(ctx).unwrap();
                let (i, dd) = (g!(t.index_width), g!(t.data_width));
                let m2 = ctx.array_store(m, i, dd);
                ctx.equal(m, m2)
            }
            _ => {
                let (p, q) = (g!(1), g!(1));
                ctx.implies(p, q)
            }
        };
    }
    match rng.random_range(0..22) {
        0 => { let a = g!(w); ctx.not(a) }
        1 => { let a = g!(w); ctx.negate(a) }
        2 => { let (a, b) = (g!(w), g!(w)); ctx.and(a, b) }
        3 => { let (a, b) = (g!(w), g!(w)); ctx.or(a, b) }
        4 => { let (a, b) = (g!(w), g!(w)); ctx.xor(a, b) }
        5 => { let (a, b) = (g!(w), g!(w)); ctx.add(a, b) }
        6 => { let (a, b) = (g!(w), g!(w)); ctx.sub(a, b) }
        7 if w <= cfg.mul_max_w => { let (a, b) = (g!(w), g!(w)); ctx.mul(a, b) }
        8 => { let (a, b) = (g!(w), g!(w)); ctx.shift_left(a, b) }
        9 => { let (a, b) = (g!(w), g!(w)); ctx.shift_right(a, b) }
        10 => { let (a, b) = (g!(w), g!(w)); ctx.arithmetic_shift_right(a, b) }
        11 => { let (c, a, b) = (g!(1), g!(w), g!(w)); ctx.ite(c, a, b) }
        12 if w > 1 => { let k = rng.random_range(1..w); let (a, b) = (g!(w - k), g!(k)); ctx.concat(a, b) }
        13 if w > 1 => { let k = rng.random_range(1..w); let a = g!(w - k); ctx.zero_extend(a, k) }
        14 if w > 1 => { let k = rng.random_range(1..w); let a = g!(w - k); ctx.sign_extend(a, k) }
        15 | 16 => { let extra = rng.random_range(1..4); let lo = rng.random_range(0..=extra); let a = g!(w + extra); ctx.slice(a, lo + w - 1, lo) }
        17 if cfg.arrays => {
            let cands: Vec<_> = arrs.iter().filter(|s| s.get_array_type(ctx).map(|t| t.data_width) == Some(w)).cloned().collect();
            if let Some(m) = cands.choose(rng) {
                let iw = m.get_array_type(ctx).unwrap().index_width;
                let i = g!(iw);
                let m2 = if rng.random_bool(0.5) { let (j, dd) = (g!(iw), g!(w)); ctx.array_store(*m, j, dd) } else { *m };
                ctx.array_read(m2, i)
            } else { let a = g!(w); ctx.not(a) }
        }
        18 if cfg.div && w <= 16 => {
            let (a, b) = (g!(w), g!(w));
            match rng.random_range(0..5) { 0 => ctx.div(a, b), 1 => ctx.signed_div(a, b), 2 => ctx.signed_mod(a, b), 3 => ctx.signed_remainder(a, b), _ => ctx.remainder(a, b) }
        }
        _ => { let (a, b) = (g!(w), g!(w)); ctx.xor(a, b) }
    }
}
