//! C02 / C03 / C04 / C10 / C15: model checking against the reference solver environment (solver/smtproxy.py
//! placed on PATH under the solvers' names).  A supervised worker executes runs (system x engine x
//! configuration) through the real patronus::mc::bmc / pdr and records verdict, witness, patronus' own
//! replay script (tokenised by smt.rs) and - for PDR - the frame events from the verification hook.
//! The supervisor turns a worker that stalls (a call that never returns) or dies into a recorded outcome.
use crate::ex::*;
use crate::smt;
use crate::sys::*;
use crate::{flag, flag_u};
use patronus::mc::{InitValue, ModelCheckResult, TransitionSystemEncoding, UnrollSmtEncoding, Witness, bmc, pdr};
use patronus::smt::{BITWUZLA, CVC5, Solver, SmtLibSolver, YICES2, Z3};
use patronus::system::{State, TransitionSystem};
use std::io::Write;

fn solver_of(profile: &str) -> SmtLibSolver {
    match profile { "z3" => Z3, "cvc5" => CVC5, "bitwuzla" => BITWUZLA, "yices2" => YICES2, p => panic!("profile {p}") }
}

fn set_env(k: &str, v: &str) { unsafe { std::env::set_var(k, v); } }
fn del_env(k: &str) { unsafe { std::env::remove_var(k); } }

fn witness_json(ctx: &Context, sys: &TransitionSystem, w: &Witness) -> J {
    let init: Vec<J> = w.init.iter().map(|v| match v {
        InitValue::BitVec(b) => bits(b),
        InitValue::Array(a, _) => carr(a, &[]),
        InitValue::None => json!(["none"]),
    }).collect();
    let inputs: Vec<J> = w.inputs.iter().map(|step| J::Array(step.iter().map(|v| match v { Some(Value::BitVec(b)) => bits(b), Some(Value::Array(a)) => carr(a, &[]), None => json!(["none"]) }).collect())).collect();
    let names = |v: &Vec<Option<String>>| -> Vec<J> { v.iter().map(|n| json!(n.clone().unwrap_or("<none>".into()))).collect() };
    let _ = (ctx, sys);
    json!({"failed": w.failed_safety, "init_names": names(&w.init_names), "input_names": names(&w.input_names), "init": init, "inputs": inputs})
}
/// names of the state symbols of the first step as the encoder spells them (`name@0`, constant states: `name`)
fn state0(ctx: &Context, sys: &TransitionSystem) -> Vec<String> {
    sys.states.iter().flat_map(|s| { let n = ctx.get_symbol_name(s.symbol).unwrap_or("?"); vec![format!("{n}@0"), format!("{n}@1"), n.to_string()] }).collect()
}
fn no_witness() -> J { json!({"failed": [], "init_names": [], "input_names": [], "init": [], "inputs": []}) }

#[derive(Clone)]
pub struct RunCfg {
    pub engine: String,   // bmc | pdr
    pub k: u64,
    pub profile: String,
    pub individually: bool,
    pub simplified: bool,
    pub no_cores: bool,
    pub model_seed: Option<u64>,
    pub core_mode: String,
    pub fault_at: u64,
    pub fault_kind: String,
    pub fault_len: u64,
}
impl RunCfg {
    fn json(&self) -> J {
        json!({"engine": self.engine, "k": self.k, "profile": self.profile, "individually": if self.individually {1} else {0}, "simplified": if self.simplified {1} else {0},
               "no_cores": if self.no_cores {1} else {0}, "model_seed": self.model_seed.map(|s| s as i64).unwrap_or(-1), "core_mode": self.core_mode,
               "fault_at": self.fault_at, "fault_kind": self.fault_kind, "fault_len": self.fault_len})
    }
}

/// one model-checking run; returns the record
fn run_one(ctx0: &Context, sys0: &TransitionSystem, cfg: &RunCfg, sid: usize, rid: &str, work: &str, want_script: bool) -> J {
    let mut ctx = ctx0.clone();
    let mut sys = sys0.clone();
    if cfg.simplified { patronus::system::transform::simplify_expressions(&mut ctx, &mut sys); }
    let replay_path = format!("{work}/replay_{}.smt2", std::process::id());
    let transcript = format!("{work}/transcript_{}.ndjson", std::process::id());
    let _ = std::fs::remove_file(&transcript);
    set_env("PV_TRANSCRIPT", &transcript);
    let count_file = format!("{work}/count_{}.txt", std::process::id());
    let _ = std::fs::remove_file(&count_file);
    set_env("PV_COUNT_FILE", &count_file);
    match cfg.model_seed { Some(s) => set_env("PV_MODEL_SEED", &s.to_string()), None => del_env("PV_MODEL_SEED") }
    set_env("PV_CORE_MODE", &cfg.core_mode);
    set_env("PV_FAULT_AT", &cfg.fault_at.to_string());
    set_env("PV_FAULT_KIND", &cfg.fault_kind);
    set_env("PV_FAULT_LEN", &cfg.fault_len.to_string());
    let _ = patronus::verif::drain();
    let t0 = std::time::Instant::now();
    let res = guarded(|| {
        let rf = std::fs::File::create(&replay_path).ok();
        let mut smt_ctx = solver_of(&cfg.profile).start(rf).map_err(|e| format!("{e}"))?;
        let r = if cfg.engine == "bmc" { bmc(&mut ctx, &mut smt_ctx, &sys, false, cfg.individually, cfg.k) } else { pdr(&mut ctx, &mut smt_ctx, &sys, cfg.no_cores) };
        r.map_err(|e| format!("{e}"))
    });
    let ms = t0.elapsed().as_millis() as u64;
    let (kind, msg, wit) = match &res {
        Ok(Ok(ModelCheckResult::Success)) => ("success", String::new(), no_witness()),
        Ok(Ok(ModelCheckResult::Unknown)) => ("unknown", String::new(), no_witness()),
        Ok(Ok(ModelCheckResult::Fail(w))) => ("fail", String::new(), witness_json(&ctx, &sys, w)),
        Ok(Err(e)) => ("err", e.clone(), no_witness()),
        Err((loc, m)) => ("panic", format!("{loc}|{m}"), no_witness()),
    };
    // PDR frame events (hook): cubes as node indices into the (simplified) system's table
    let events = patronus::verif::drain();
    let mut ev_roots: Vec<ExprRef> = vec![];
    for e in events.iter() { if let patronus::verif::PdrEvent::AddBlockedCube { literals, .. } = e { ev_roots.extend(literals.iter().cloned()); } }
    let sysj = export_system_extra(&ctx, &sys, false, &ev_roots);
    let mut p = 0;
    let evj: Vec<J> = events.iter().map(|e| match e {
        patronus::verif::PdrEvent::AddFrame(n) => json!({"ev":"AddFrame","frame":n,"inf":0,"lits":[]}),
        patronus::verif::PdrEvent::AddBlockedCube { frame, literals } => {
            let l: Vec<u64> = literals.iter().map(|_| { p += 1; sysj["extra"][p - 1].as_u64().unwrap() }).collect();
            json!({"ev":"Block","frame":frame.unwrap_or(0),"inf":if frame.is_none() {1} else {0},"lits":l})
        }
    }).collect();
    // number of response-bearing commands in the conversation (from the proxy transcript)
    let tr_text = std::fs::read_to_string(&transcript).unwrap_or_default();
    let nresp = tr_text.lines().filter(|l| l.contains("\"dir\": \">\"") && (l.contains("(check-sat") || l.contains("(get-value") || l.contains("(get-unsat-assumptions"))).count();
    let script = if want_script {
        match smt::script(&std::fs::read_to_string(&replay_path).unwrap_or_default()) { Ok(c) => json!({"ok":1,"cmds":c,"err":""}), Err(e) => json!({"ok":0,"cmds":[],"err":e}) }
    } else { json!({"ok":1,"cmds":[],"err":""}) };
    let _ = std::fs::remove_file(&replay_path);
    let _ = std::fs::remove_file(&transcript);
    let _ = std::fs::remove_file(&count_file);
    json!({"ev":"Run","id":rid,"sid":sid,"cfg":cfg.json(),"outcome":{"kind":kind,"msg":msg},"witness":wit,"sys":if cfg.simplified || !evj.is_empty() { sysj } else { json!({}) },
           "has_sys": if cfg.simplified || !evj.is_empty() {1} else {0}, "events":evj,"nresp":nresp,"script":script,"ms":ms,"state0":state0(&ctx, &sys)})
}

/// crafted families that are safe only by an inductive invariant / fail late (exercise PDR blocking)
fn crafted(ctx: &mut Context, rng: &mut SmallRng, k: u64) -> TransitionSystem {
    let mut sys = TransitionSystem::new(format!("crafted{k}"));
    let w = rng.random_range(2..=3u32);
    let c = ctx.bv_symbol("c", w);
    let d = ctx.bv_symbol("d", w);
    let en = ctx.bv_symbol("en", 1);
    sys.add_input(ctx, en);
    let m = rng.random_range(2..(1u64 << w));
    let lim = ctx.bit_vec_val(m, w);
    let one = ctx.one(w);
    let zero = ctx.zero(w);
    let inc = ctx.add(c, one);
    let wrap = ctx.equal(c, lim);
    let nx = ctx.ite(wrap, zero, inc);
    let cn = ctx.ite(en, nx, c);
    let coupled = rng.random_bool(0.5);
    let dn = if coupled { cn } else { let di = ctx.add(d, one); ctx.ite(en, di, d) };
    sys.add_state(ctx, State { symbol: c, init: Some(zero), next: Some(cn) });
    sys.add_state(ctx, State { symbol: d, init: Some(zero), next: Some(dn) });
    // bad: c above the limit (unreachable) or d different from c (unreachable iff coupled) or c = some value (reachable)
    let bad = match rng.random_range(0..4) {
        0 => ctx.greater(c, lim),
        1 => { let e = ctx.equal(c, d); ctx.not(e) }
        2 => { let t = ctx.bit_vec_val(rng.random_range(0..(1u64 << w)), w); ctx.equal(c, t) }
        _ => { let t = ctx.bit_vec_val(rng.random_range(0..(1u64 << w)), w); let a = ctx.equal(d, t); let b = ctx.greater(c, lim); ctx.or(a, b) }
    };
    sys.bad_states.push(bad);
    if rng.random_bool(0.3) { let cst = ctx.greater_or_equal(lim, c); sys.constraints.push(cst); }
    sys
}

/// systematic state-shape family: a driver state s0 (counter or input-driven) and a state s1 whose init / next take
/// every combination of kinds the encoder treats differently (no init, literal, a bare other state, an expression
/// over another state; no next, itself, the very node that is its init, a bare other state, a bare input, an
/// expression).  The bad states compare each state with a constant, so a wrong trajectory of either state changes
/// the verdict or the step at which it is reached.  k enumerates the combinations (24 per width class).
fn shaped(ctx: &mut Context, rng: &mut SmallRng, k: u64, for_pdr: bool) -> TransitionSystem {
    let mut sys = TransitionSystem::new(format!("shaped{k}"));
    let c = k / 3;
    let (ik, nk) = (c % 4, (c / 4) % 6);
    let w = if (c / 24) % 2 == 0 { 2u32 } else { 1 };
    let s0 = ctx.bv_symbol("s0", w);
    let s1 = ctx.bv_symbol("s1", w);
    let inp = ctx.bv_symbol("in", w);
    sys.add_input(ctx, inp);
    let one = ctx.one(w);
    let s0_init = { let v = rnd_bv(rng, w); ctx.bv_lit(&v) };
    let s0_next = match rng.random_range(0..3) { 0 => ctx.add(s0, one), 1 => ctx.xor(s0, inp), _ => { let a = ctx.add(s0, one); let e = ctx.equal(inp, s0); ctx.ite(e, s0, a) } };
    sys.add_state(ctx, State { symbol: s0, init: Some(s0_init), next: Some(s0_next) });
    let init = match ik {
        0 => None,
        1 => { let v = rnd_bv(rng, w); Some(ctx.bv_lit(&v)) }
        2 => Some(s0),
        // (expressions the driver's next function never contains: a shared node would run into KF-C04-init-order)
        _ => Some(if rng.random_bool(0.5) { let v = rnd_bv(rng, w); let l = ctx.bv_lit(&v); ctx.sub(l, s0) } else { ctx.not(s0) }),
    };
    let next = match nk {
        0 if !for_pdr => None,
        0 | 1 => Some(s1),
        2 => init.or(Some(s1)),
        3 => Some(s0),
        4 => Some(inp),
        _ => Some(match rng.random_range(0..3) { 0 => ctx.add(s1, s0), 1 => { let e = ctx.equal(s0, inp); ctx.ite(e, s1, s0) } _ => ctx.xor(s1, inp) }),
    };
    sys.add_state(ctx, State { symbol: s1, init, next });
    let c1 = { let v = rnd_bv(rng, w); ctx.bv_lit(&v) };
    let b1 = ctx.equal(s1, c1);
    match rng.random_range(0..3) {
        0 => sys.bad_states.push(b1),
        1 => { let c0 = { let v = rnd_bv(rng, w); ctx.bv_lit(&v) }; let b0 = ctx.equal(s0, c0); let b = ctx.and(b0, b1); sys.bad_states.push(b); }
        _ => { let ne = ctx.equal(s0, s1); let nn = ctx.not(ne); let b = ctx.and(nn, b1); sys.bad_states.push(b); sys.bad_states.push(b1); }
    }
    if rng.random_range(0..4) == 0 { let v = rnd_bv(rng, w); let l = ctx.bv_lit(&v); let e = ctx.equal(inp, l); let cst = ctx.not(e); sys.constraints.push(cst); }
    sys
}

fn gen_mc_sys(ctx: &mut Context, rng: &mut SmallRng, k: u64, for_pdr: bool) -> TransitionSystem {
    if k % 3 == 2 { return crafted(ctx, rng, k); }
    if k % 3 == 1 { return shaped(ctx, rng, k, for_pdr); }
    let mut cfg = SysCfg::tiny();
    cfg.max_bits = 6;
    cfg.max_inputs = 2; cfg.max_input_w = 2;
    if for_pdr { cfg.all_next = true; cfg.arrays = false; }
    gen_sys(ctx, rng, &cfg, "").sys
}

fn configs(kind: &str, rng: &mut SmallRng, kmax: u64, thorough: bool) -> Vec<RunCfg> {
    let base = RunCfg { engine: "bmc".into(), k: 1, profile: "z3".into(), individually: false, simplified: false, no_cores: false, model_seed: None, core_mode: "solver".into(), fault_at: 0, fault_kind: String::new(), fault_len: 0 };
    let mut v = vec![];
    match kind {
        "bmc" => {
            for k in 1..=kmax {
                for (pi, profile) in ["z3", "yices2", "bitwuzla", "cvc5"].iter().enumerate() {
                    // every k with z3; the other profiles on a rotating subset (all of them when thorough)
                    if pi > 0 && !thorough && (k as usize + pi) % 3 != 0 { continue; }
                    let individually = rng.random_bool(0.5);
                    let simplified = rng.random_bool(0.4);
                    v.push(RunCfg { k, profile: profile.to_string(), individually, simplified, model_seed: if rng.random_bool(0.5) { Some(rng.random_range(1..1000)) } else { None }, ..base.clone() });
                    if thorough { v.push(RunCfg { k, profile: profile.to_string(), individually: !individually, simplified: !simplified, ..base.clone() }); }
                }
            }
        }
        "pdr" => {
            for (profile, no_cores, core_mode) in [("z3", false, "solver"), ("z3", true, "solver"), ("z3", false, "full"), ("z3", false, "minimal"), ("z3", false, "superset"), ("bitwuzla", false, "solver"), ("yices2", true, "solver"), ("cvc5", false, "solver")] {
                if !thorough && rng.random_range(0..3) == 0 && core_mode != "solver" { continue; }
                v.push(RunCfg { engine: "pdr".into(), k: 0, profile: profile.into(), no_cores, core_mode: core_mode.into(), model_seed: if rng.random_bool(0.6) { Some(rng.random_range(1..1000)) } else { None }, ..base.clone() });
            }
        }
        _ => {}
    }
    v
}

pub fn run(args: &[String]) {
    if flag(args, "--worker").is_none() { return supervise(args, "mc", flag_u(args, "--stall", 40)); }
    let out_path = flag(args, "--out").expect("--out").to_string();
    let prog = format!("{out_path}.progress");
    let start = flag_u(args, "--start", 0);
    let work = std::path::Path::new(&out_path).parent().unwrap().to_string_lossy().to_string();
    let mut f = std::fs::OpenOptions::new().append(true).create(true).open(&out_path).unwrap();
    let seed = env_seed();
    let kind = flag(args, "--kind").unwrap_or("bmc").to_string();
    let nsys = flag_u(args, "--systems", 10);
    let kmax = flag_u(args, "--kmax", 5);
    let thorough = flag(args, "--thorough").is_some();
    let shard = flag_u(args, "--shard", 0);
    let nshards = flag_u(args, "--shards", 1);
    let want_script = flag(args, "--scripts").is_some();
    // deterministic enumeration of (system, config) work items
    let mut item = 0u64;
    if kind == "faults" { return fault_worker(args, &out_path, &prog, start, &work, &mut f); }
    for s in 0..nsys {
        if s % nshards != shard { continue; }
        let mut rng = seed_rng(seed.wrapping_mul(1000003).wrapping_add(s));
        let mut ctx = Context::default();
        let sys = gen_mc_sys(&mut ctx, &mut rng, s, kind == "pdr");
        let cfgs = configs(&kind, &mut rng, kmax, thorough);
        if item + (cfgs.len() as u64) < start { item += cfgs.len() as u64 + 1; continue; }
        if item >= start {
            std::fs::write(&prog, format!("{item}")).unwrap();
            writeln!(f, "{}", json!({"ev":"Sys","id":format!("s{s}"),"sid":s,"sys":export_system(&ctx, &sys, false)})).unwrap();
        }
        item += 1;
        for (ci, cfg) in cfgs.iter().enumerate() {
            if item >= start {
                std::fs::write(&prog, format!("{item}")).unwrap();
                let r = run_one(&ctx, &sys, cfg, s as usize, &format!("s{s}c{ci}"), &work, want_script);
                writeln!(f, "{}", r).unwrap();
                f.flush().unwrap();
            }
            item += 1;
        }
    }
    std::fs::write(&prog, format!("{item}")).unwrap();
    std::fs::write(format!("{out_path}.summary"), json!({"items": item}).to_string()).unwrap();
}

/// C15: for each base run, every response-bearing position x every fault kind
fn fault_worker(args: &[String], out_path: &str, prog: &str, start: u64, work: &str, f: &mut std::fs::File) {
    let seed = env_seed();
    let nsys = flag_u(args, "--systems", 4);
    let shard = flag_u(args, "--shard", 0);
    let nshards = flag_u(args, "--shards", 1);
    let thorough = flag(args, "--thorough").is_some();
    let max_pos = flag_u(args, "--max-pos", 40);
    let lens: Vec<u64> = if thorough { (0..=40).collect() } else { vec![0, 1, 3, 6, 7, 8, 9, 20] };
    let mut faults: Vec<(String, u64)> = lens.iter().map(|l| ("error".to_string(), *l)).collect();
    for k in ["unknown", "empty", "garbage", "truncate", "exit", "exit_status"] { faults.push((k.to_string(), 12)); }
    let base = RunCfg { engine: "bmc".into(), k: 3, profile: "z3".into(), individually: false, simplified: false, no_cores: false, model_seed: None, core_mode: "solver".into(), fault_at: 0, fault_kind: String::new(), fault_len: 0 };
    let mut item = 0u64;
    let mut b = 0u64;
    for s in 0..nsys {
        let mut rng = seed_rng(seed.wrapping_mul(1000003).wrapping_add(s));
        let mut ctx = Context::default();
        let sys = gen_mc_sys(&mut ctx, &mut rng, s, true);
        for bc in [RunCfg { ..base.clone() }, RunCfg { profile: "yices2".into(), individually: true, ..base.clone() }, RunCfg { engine: "pdr".into(), ..base.clone() }, RunCfg { engine: "pdr".into(), profile: "yices2".into(), no_cores: true, ..base.clone() }] {
            b += 1;
            if b % nshards != shard { continue; }
            // the fault-free conversation gives the number of response-bearing commands
            let r0 = run_one(&ctx, &sys, &bc, s as usize, &format!("s{s}b{b}"), work, false);
            let nresp = r0["nresp"].as_u64().unwrap().min(max_pos);
            let n_items = 1 + nresp * faults.len() as u64;
            if item + n_items <= start { item += n_items; continue; }
            if item >= start {
                std::fs::write(prog, format!("{item}")).unwrap();
                let mut r = r0.clone(); r["ev"] = json!("Base");
                writeln!(f, "{}", r).unwrap();
            }
            item += 1;
            for pos in 1..=nresp {
                for (fk, fl) in faults.iter() {
                    if item >= start {
                        std::fs::write(prog, format!("{item}")).unwrap();
                        let cfg = RunCfg { fault_at: pos, fault_kind: fk.clone(), fault_len: *fl, ..bc.clone() };
                        let mut r = run_one(&ctx, &sys, &cfg, s as usize, &format!("s{s}b{b}p{pos}{fk}{fl}"), work, false);
                        r["ev"] = json!("Fault");
                        let expected: String = (0..*fl).map(|i| "abcdefghij".chars().nth((i % 10) as usize).unwrap()).collect();
                        let msg = r["outcome"]["msg"].as_str().unwrap_or("").to_string();
                        r["carried"] = json!(if fk != "error" || msg.contains(&format!("\"{expected}\"")) || (msg.contains(&expected) && !expected.is_empty()) { 1 } else { 0 });
                        r["expected_msg"] = json!(expected);
                        r["base"] = json!(r0["outcome"]["kind"]);
                        writeln!(f, "{}", r).unwrap();
                        f.flush().unwrap();
                    }
                    item += 1;
                }
            }
        }
    }
    std::fs::write(prog, format!("{item}")).unwrap();
    std::fs::write(format!("{out_path}.summary"), json!({"items": item}).to_string()).unwrap();
}

/// generic supervisor: restarts the worker after an item that stalled or killed it
pub fn supervise(args: &[String], cmd: &str, stall_secs: u64) {
    let out_path = flag(args, "--out").expect("--out").to_string();
    let _ = std::fs::remove_file(&out_path);
    let prog = format!("{out_path}.progress");
    let exe = std::env::current_exe().unwrap();
    let mut start = 0u64;
    let mut incidents = 0;
    // an item that ran into the watchdog is run ONCE more with a ten times longer stall period before it is recorded as
    // an incident: on a heavily loaded machine even a trivial run can be starved for a stall period (seen with load
    // averages of 40-50), and a flaky rejection would discredit the real ones; a genuine hang times out again
    let mut retried: Option<u64> = None;
    loop {
        let stall_secs = if retried == Some(start) { stall_secs * 10 } else { stall_secs };
        let _ = std::fs::write(&prog, format!("{start}"));
        // liveness: the work item advances, or the solver proxy keeps answering (it touches the heartbeat file after every
        // answer).  A run that is merely slow on a loaded machine is not a stuck run; one work item may still not take
        // longer than 20 stall periods in total.
        let hb = format!("{out_path}.heartbeat");
        let _ = std::fs::write(&hb, "");
        let mut child = std::process::Command::new(&exe).arg(cmd).arg("--worker").arg("1").arg("--start").arg(start.to_string()).args(args)
            .env("PV_HEARTBEAT", &hb).stderr(std::process::Stdio::null()).spawn().expect("spawn worker");
        let beat = |p: &str| std::fs::metadata(p).and_then(|m| m.modified()).ok();
        let mut last = (start, beat(&hb), std::time::Instant::now());
        let mut item_since = std::time::Instant::now();
        let status = loop {
            if let Some(st) = child.try_wait().unwrap() { break Some(st); }
            std::thread::sleep(std::time::Duration::from_millis(200));
            let cur: u64 = std::fs::read_to_string(&prog).ok().and_then(|s| s.trim().parse().ok()).unwrap_or(last.0);
            let b = beat(&hb);
            if cur != last.0 { item_since = std::time::Instant::now(); }
            if cur != last.0 || b != last.1 { last = (cur, b, std::time::Instant::now()); }
            if last.2.elapsed().as_secs() > stall_secs || item_since.elapsed().as_secs() > 20 * stall_secs { let _ = child.kill(); let _ = child.wait(); break None; }
        };
        let _ = std::fs::remove_file(&hb);
        let done: u64 = std::fs::read_to_string(&prog).ok().and_then(|s| s.trim().parse().ok()).unwrap_or(start);
        match status {
            Some(st) if st.success() => break,
            other => {
                if other.is_none() && retried != Some(done) {
                    // cut a partial last line, then run the same item again with the longer period
                    if let Ok(bytes) = std::fs::read(&out_path) {
                        let keep = bytes.iter().rposition(|b| *b == b'\n').map(|p| p + 1).unwrap_or(0);
                        if keep != bytes.len() { let _ = std::fs::write(&out_path, &bytes[..keep]); }
                    }
                    retried = Some(done);
                    start = done;
                    continue;
                }
                let kind = if other.is_none() { "timeout" } else { "abort" };
                // a worker killed in the middle of a write leaves a partial last line: cut it off
                if let Ok(bytes) = std::fs::read(&out_path) {
                    let keep = bytes.iter().rposition(|b| *b == b'\n').map(|p| p + 1).unwrap_or(0);
                    if keep != bytes.len() { let _ = std::fs::write(&out_path, &bytes[..keep]); }
                }
                let mut f = std::fs::OpenOptions::new().append(true).create(true).open(&out_path).unwrap();
                writeln!(f, "{}", json!({"ev":"Incident","id":format!("item{done}"),"item":done,"kind":kind,"msg":format!("{other:?}")})).unwrap();
                incidents += 1;
                start = done + 1;
                if incidents > 60 { break; }
            }
        }
    }
    // kill stray proxies of a killed worker
    let n = std::fs::read_to_string(&out_path).map(|s| s.lines().count()).unwrap_or(0);
    println!("{}", json!({"records": n, "incidents": incidents}));
}

// -------------------------------------------------------------------------------------------------
// C04: direct use of the encoder (both entry points) with the script and the (signal, step) -> symbol map

fn sym_name(ctx: &Context, e: ExprRef) -> String {
    if ctx[e].is_symbol() { ctx.get_symbol_name(e).unwrap().to_string() } else { "<lit>".to_string() }
}

fn enc_record(ctx0: &Context, sys: &TransitionSystem, sid: u64, start: u64, k: u64, work: &str) -> J {
    let mut ctx = ctx0.clone();
    let replay_path = format!("{work}/enc_{}.smt2", std::process::id());
    del_env("PV_TRANSCRIPT"); del_env("PV_MODEL_SEED"); del_env("PV_COUNT_FILE"); set_env("PV_FAULT_AT", "0"); set_env("PV_CORE_MODE", "solver");
    let res = guarded(|| -> Result<Vec<J>, String> {
        let rf = std::fs::File::create(&replay_path).ok();
        let mut smt_ctx = Z3.start(rf).map_err(|e| format!("{e}"))?;
        use patronus::smt::SolverContext;
        smt_ctx.set_logic(patronus::smt::Logic::All).map_err(|e| format!("{e}"))?;
        let mut enc = UnrollSmtEncoding::new(&mut ctx, sys, false);
        enc.init_at(&mut ctx, &mut smt_ctx, start).map_err(|e| format!("{e}"))?;
        for _ in 0..k { enc.unroll(&mut ctx, &mut smt_ctx).map_err(|e| format!("{e}"))?; }
        // a final query makes the solver report any error of the script
        let r = smt_ctx.check_sat().map_err(|e| format!("solver: {e}"))?;
        let _ = r;
        let mut map = vec![];
        for step in start..=(start + k) {
            for (i, s) in sys.states.iter().enumerate() { map.push(json!({"kind":"state","idx":i + 1,"step":step - start,"name":sym_name(&ctx, enc.get_signal_at(&ctx, s.symbol, step))})); }
            for (i, s) in sys.inputs.iter().enumerate() { map.push(json!({"kind":"input","idx":i + 1,"step":step - start,"name":sym_name(&ctx, enc.get_signal_at(&ctx, *s, step))})); }
            for (i, s) in sys.constraints.iter().enumerate() { map.push(json!({"kind":"constraint","idx":i + 1,"step":step - start,"name":sym_name(&ctx, enc.get_signal_at(&ctx, *s, step))})); }
            for (i, s) in sys.bad_states.iter().enumerate() { map.push(json!({"kind":"bad","idx":i + 1,"step":step - start,"name":sym_name(&ctx, enc.get_signal_at(&ctx, *s, step))})); }
        }
        Ok(map)
    });
    let text = std::fs::read_to_string(&replay_path).unwrap_or_default();
    let _ = std::fs::remove_file(&replay_path);
    let script = match smt::script(&text) { Ok(c) => json!({"ok":1,"cmds":c,"err":""}), Err(e) => json!({"ok":0,"cmds":[],"err":e}) };
    let (kind, msg, map) = match res { Ok(Ok(m)) => ("ok", String::new(), m), Ok(Err(e)) => ("err", e, vec![]), Err((loc, m)) => ("panic", format!("{loc}|{m}"), vec![]) };
    json!({"ev":"Enc","id":format!("s{sid}:{start}+{k}"),"sid":sid,"start":start,"k":k,"outcome":{"kind":kind,"msg":msg},"sys":export_system(ctx0, sys, false),"script":script,"map":map,"state0":state0(ctx0, sys),"check_faith":if sys.states.iter().all(|s| s.next.is_some()) {1} else {0},
           "text":text.lines().take(60).collect::<Vec<_>>()})
}

/// systems in which signals are shared between init / next / bad roots (every use-classification of a signal)
fn gen_enc_sys(ctx: &mut Context, rng: &mut SmallRng, k: u64) -> TransitionSystem {
    if k % 2 == 0 {
        let mut cfg = SysCfg::tiny();
        // every fourth system may contain states without a next function (script well-formedness only)
        cfg.max_bits = 5; cfg.max_inputs = 1; cfg.max_input_w = 2; cfg.all_next = k % 4 != 0; cfg.arrays = k % 6 == 0;
        return gen_sys(ctx, rng, &cfg, "").sys;
    }
    let mut sys = TransitionSystem::new(format!("share{k}"));
    let w = rng.random_range(1..=2u32);
    let (s1, s2) = (ctx.bv_symbol("s1", w), ctx.bv_symbol("s2", w));
    let i = ctx.bv_symbol("i", w);
    sys.add_input(ctx, i);
    // the shared signal x reads a subset of s1, s2, i (init may only read the earlier state s1)
    let x_in_init = rng.random_bool(0.5);
    let mut parts = vec![];
    if rng.random_bool(0.7) { parts.push(s1); }
    if !x_in_init && rng.random_bool(0.5) { parts.push(s2); }
    if !x_in_init && rng.random_bool(0.5) { parts.push(i); }
    if parts.is_empty() { parts.push(s1); }
    let one = ctx.one(w);
    let mut x = ctx.add(parts[0], one);
    for p in parts[1..].iter() { x = ctx.xor(x, *p); }
    if rng.random_bool(0.4) { let nm = ctx.string("x".into()); sys.names[x] = Some(nm); }
    let lit = { let v = rnd_bv(rng, w); ctx.bv_lit(&v) };
    let init1 = if rng.random_bool(0.6) { Some(lit) } else { None };
    let init2 = if x_in_init { Some(x) } else if rng.random_bool(0.5) { Some(ctx.not(s1)) } else { None };
    let n1 = if rng.random_bool(0.5) { x } else { ctx.add(s1, i) };
    let n2 = if rng.random_bool(0.5) { ctx.xor(x, s2) } else { ctx.sub(s2, i) };
    sys.add_state(ctx, State { symbol: s1, init: init1, next: Some(n1) });
    sys.add_state(ctx, State { symbol: s2, init: init2, next: Some(n2) });
    let z = ctx.zero(w);
    let bad = if rng.random_bool(0.5) { ctx.equal(x, z) } else { ctx.equal(s2, z) };
    sys.bad_states.push(bad);
    if rng.random_bool(0.3) { let c = ctx.greater_or_equal(x, s1); sys.constraints.push(c); }
    sys
}

pub fn run_enc(args: &[String]) {
    let mut out = Out::new(flag(args, "--out").expect("--out"));
    let out_path = flag(args, "--out").unwrap().to_string();
    let work = std::path::Path::new(&out_path).parent().unwrap().to_string_lossy().to_string();
    let seed = env_seed();
    let shard = flag_u(args, "--shard", 0);
    let nshards = flag_u(args, "--shards", 1);
    for s in 0..flag_u(args, "--systems", 0) {
        if s % nshards != shard { continue; }
        let mut rng = seed_rng(seed.wrapping_mul(7000003).wrapping_add(s));
        let mut ctx = Context::default();
        let sys = gen_enc_sys(&mut ctx, &mut rng, s);
        let k = flag_u(args, "--k", 2);
        out.put(&enc_record(&ctx, &sys, s, 0, k, &work));
        out.put(&enc_record(&ctx, &sys, s, 1, k.min(1), &work));
    }
    let n = out.n;
    out.finish();
    println!("{}", json!({"records": n}));
}

// -------------------------------------------------------------------------------------------------
// the command-line model checker (tools/mc) end to end: btor2 text in, verdict / witness text out

pub fn run_cli(args: &[String]) {
    let mut out = Out::new(flag(args, "--out").expect("--out"));
    let out_path = flag(args, "--out").unwrap().to_string();
    let work = std::path::Path::new(&out_path).parent().unwrap().to_string_lossy().to_string();
    let bin = flag(args, "--bin").expect("--bin").to_string();
    let seed = env_seed();
    for s in 0..flag_u(args, "--systems", 0) {
        let mut rng = seed_rng(seed.wrapping_mul(9000011).wrapping_add(s));
        let mut ctx = Context::default();
        // every third system has no states at all (the CLI then reduces BMC to a single cycle)
        let sys = if s % 3 == 0 {
            let mut sys = TransitionSystem::new(format!("stateless{s}"));
            let a = ctx.bv_symbol("a", 2);
            let b = ctx.bv_symbol("b", 1);
            sys.add_input(&ctx, a); sys.add_input(&ctx, b);
            let cfg = GenCfg::small();
            let bad = gen_bv(&mut ctx, &mut rng, &cfg, 1, 2, &[a, b], &[]);
            sys.bad_states.push(bad);
            sys
        } else {
            let mut cfg = SysCfg::tiny();
            cfg.max_bits = 5; cfg.all_next = true; cfg.arrays = false; cfg.max_inputs = 1;
            let mut g = gen_sys(&mut ctx, &mut rng, &cfg, "").sys;
            g.constraints.clear(); // the CLI checks constraint satisfiability with an assert_eq! (documented)
            g
        };
        let text = match guarded(|| patronus::btor2::serialize_to_str(&ctx, &sys)) { Ok(t) => t, Err(_) => continue };
        let path = format!("{work}/cli_{}_{s}.btor", std::process::id());
        std::fs::write(&path, &text).unwrap();
        let engine = if s % 2 == 0 { "bmc" } else { "pdr" };
        let o = std::process::Command::new(&bin).args(["--solver", "z3", "--engine", engine, &path]).output();
        let _ = std::fs::remove_file(&path);
        let (kind, msg, wit) = match o {
            Ok(o) => {
                let so = String::from_utf8_lossy(&o.stdout).to_string();
                let se = String::from_utf8_lossy(&o.stderr).to_string();
                let body: String = so.lines().filter(|l| !l.starts_with("[warn]")).collect::<Vec<_>>().join("\n");
                if o.status.code() == Some(0) && body.trim() == "unsat" { ("success", String::new(), no_witness()) }
                else if o.status.code() == Some(0) && body.trim_start().starts_with("sat") {
                    match guarded(|| patronus::btor2::parse_witness(&mut body.as_bytes())) {
                        Ok(Ok(w)) => ("fail", String::new(), witness_json(&ctx, &sys, &w)),
                        _ => ("err", "witness text could not be read back".into(), no_witness()),
                    }
                }
                else if se.contains("panicked") { ("panic", se.lines().find(|l| l.contains("panicked")).unwrap_or("").chars().take(160).collect::<String>() + " | " + &se.lines().skip_while(|l| !l.contains("panicked")).nth(1).unwrap_or("").chars().take(120).collect::<String>(), no_witness()) }
                else { ("err", format!("exit {:?}: {}", o.status.code(), se.chars().take(200).collect::<String>()), no_witness()) }
            }
            Err(e) => ("err", format!("spawn: {e}"), no_witness()),
        };
        let k = if sys.states.is_empty() { 0 } else { 25 };
        out.put(&json!({"ev":"Sys","id":format!("s{s}"),"sid":s,"sys":export_system(&ctx, &sys, false)}));
        // witnesses printed by the CLI name states / inputs as the (re-parsed, simplified) system does; names are
        // compared by Trace_MC against the system the text was written from
        out.put(&json!({"ev":"Run","id":format!("cli{s}"),"sid":s,"cfg":{"engine":engine,"k":k,"profile":"z3","individually":0,"simplified":1,"no_cores":0,"model_seed":-1,"core_mode":"solver","fault_at":0,"fault_kind":"","fault_len":0},
                        "outcome":{"kind":kind,"msg":msg},"witness":wit,"sys":{},"has_sys":0,"events":[],"nresp":0,"script":{"ok":1,"cmds":[],"err":""},"ms":0,"state0":[],"cli":1,"text":text.lines().take(40).collect::<Vec<_>>()}));
    }
    let n = out.n;
    out.finish();
    println!("{}", json!({"records": n}));
}
