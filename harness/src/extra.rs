//! Coverage beyond the listed properties (not registered in MANIFEST.json; run with `bin/check EXTRA`):
//!  (an E1 round trip "expression printer -> expr::parse_expr" was tried and dropped: the printer does not print symbol
//!   types, which parse_expr needs on a symbol's first occurrence - there is no round-trip contract to check)
//!  E2  count_expr_uses agrees with the definition in spec/UseCount.tla on exported DAGs.
//!  E4  system::analysis::analyze_for_serialization (the signal order used by the encoder and both writers) against
//!      spec/Trace_SigOrder.tla on generated systems.
//!  E3  TypeCheck::type_check / get_type agree with the typing of spec/Expr.tla on every node the builders produce from
//!      the descriptors of spec/TypeCkGen.tla (operators over leaves of every kind and width, well-typed or not).
use crate::ex::*;
use crate::{flag, flag_u};

pub fn run(args: &[String]) {
    let mut out = Out::new(flag(args, "--out").expect("--out"));
    let mut uout = Out::new(flag(args, "--uses-out").expect("--uses-out"));
    let mut rng = seed_rng(env_seed());
    let cfg = GenCfg { div: true, mul_max_w: 64, arrays: false, cmp_widths: vec![1, 2, 3, 8, 33] };
    let mut recs: Vec<(Context, ExprRef, String)> = vec![];
    if let Some(inp) = flag(args, "--in") {
        for (i, rec) in read_ndjson(inp).iter().enumerate() {
            let mut ctx = Context::default();
            let refs = import(&mut ctx, &rec["nodes"]);
            let root = refs[rec["root"].as_u64().unwrap() as usize - 1];
            recs.push((ctx, root, format!("g{i}")));
        }
    }
    for i in 0..flag_u(args, "--random", 0) {
        let mut ctx = Context::default();
        let w = *[1u32, 2, 3, 8, 33, 65].choose(&mut rng).unwrap();
        let syms: Vec<ExprRef> = [w, w, 1, 3, 8].iter().enumerate().map(|(k, sw)| ctx.bv_symbol(&format!("s{k}_{sw}"), *sw)).collect();
        let d = rng.random_range(1..=4);
        let root = gen_bv(&mut ctx, &mut rng, &cfg, w, d, &syms, &[]);
        recs.push((ctx, root, format!("r{i}")));
    }
    for (ctx, root, id) in recs {
        // E2: use counts of every node below two roots (the root and one of its children, if any)
        let mut roots = vec![root];
        let mut kids = vec![];
        ctx[root].for_each_child(|c| kids.push(*c));
        if let Some(k) = kids.first() { roots.push(*k); }
        let uses = count_expr_uses(&ctx, roots.clone());
        let (nodes, ix) = export_many(&ctx, &roots);
        // per node index: the count the real analysis reports
        let mut all: Vec<ExprRef> = vec![];
        {
            let mut seen = std::collections::HashSet::new();
            let mut todo = roots.clone();
            while let Some(e) = todo.pop() { if seen.insert(e) { all.push(e); ctx[e].for_each_child(|c| todo.push(*c)); } }
        }
        let mut counts = vec![0u64; nodes.as_array().unwrap().len()];
        for e in all.iter() { let i = export_many(&ctx, &[root, *e]).1[1]; if i <= counts.len() { counts[i - 1] = uses[*e] as u64; } }
        uout.put(&json!({"ev":"Uses","id":id,"nodes":nodes,"roots":ix,"counts":counts}));
    }
    let (n, m) = (out.n, uout.n);
    out.finish();
    uout.finish();
    println!("{}", json!({"records": n, "uses_records": m}));
}

/// E3: one record per descriptor {op, ts: [leaf types], by, hi, lo}
pub fn run_typeck(args: &[String]) {
    let mut out = Out::new(flag(args, "--out").expect("--out"));
    let mut counts = std::collections::BTreeMap::<String, u64>::new();
    for (i, d) in read_ndjson(flag(args, "--in").expect("--in")).iter().enumerate() {
        let op = d["op"].as_str().unwrap();
        let ts = d["ts"].as_array().unwrap();
        let mut nodes: Vec<J> = vec![];
        for (k, t) in ts.iter().enumerate() {
            let nm = format!("s{k}");
            if t["k"] == "bv" {
                nodes.push(json!({"op":"bvsym","name":nm,"w":t["w"],"bits":[],"a":[],"hi":0,"lo":0,"by":0,"iw":0,"dw":0,"ow":0}));
            } else {
                nodes.push(json!({"op":"arrsym","name":nm,"w":0,"bits":[],"a":[],"hi":0,"lo":0,"by":0,"iw":t["iw"],"dw":t["dw"],"ow":0}));
            }
        }
        let a: Vec<usize> = (1..=ts.len()).collect();
        // arrconst: the index width is by + 1
        let iw = if op == "arrconst" { d["by"].as_u64().unwrap() + 1 } else { 0 };
        nodes.push(json!({"op":op,"name":"","w":0,"bits":[],"a":a,"hi":d["hi"],"lo":d["lo"],"by":d["by"],"iw":iw,"dw":0,"ow":0}));
        let mut ctx = Context::default();
        let built = guarded(|| import(&mut ctx, &J::Array(nodes.clone())));
        let id = format!("t{i}:{op}");
        let rec = match built {
            Err((loc, msg)) => json!({"ev":"TypeCk","id":id,"d":d,"nodes":[],"root":0,"tc":"panic","t":{},"gt":{},"loc":loc,"msg":msg}),
            Ok(refs) => {
                let root = *refs.last().unwrap();
                let (en, ix) = export_many(&ctx, &[root]);
                let tc = guarded(|| root.type_check(&ctx));
                let gt = guarded(|| root.get_type(&ctx));
                match (tc, gt) {
                    (Ok(Ok(t)), Ok(g)) => json!({"ev":"TypeCk","id":id,"d":d,"nodes":en,"root":ix[0],"tc":"ok","t":type_json(t),"gt":type_json(g),"loc":"","msg":""}),
                    (Ok(Err(e)), _) => json!({"ev":"TypeCk","id":id,"d":d,"nodes":en,"root":ix[0],"tc":"err","t":{},"gt":{},"loc":"","msg":e.get_msg()}),
                    (Err((loc, msg)), _) | (_, Err((loc, msg))) => json!({"ev":"TypeCk","id":id,"d":d,"nodes":en,"root":ix[0],"tc":"panic","t":{},"gt":{},"loc":loc,"msg":msg}),
                }
            }
        };
        *counts.entry(rec["tc"].as_str().unwrap().to_string()).or_insert(0) += 1;
        out.put(&rec);
    }
    let n = out.n;
    out.finish();
    println!("{}", json!({"records": n, "outcomes": counts}));
}

/// E4: one record per generated system and include_outputs flag
pub fn run_sigorder(args: &[String]) {
    use patronus::system::analysis::{analyze_for_serialization, SerializeSignalKind};
    let mut out = Out::new(flag(args, "--out").expect("--out"));
    let seed = env_seed();
    for i in 0..flag_u(args, "--systems", 0) {
        let mut rng = seed_rng(seed.wrapping_mul(7000003).wrapping_add(i));
        let mut ctx = Context::default();
        let mut cfg = crate::sys::SysCfg::tiny();
        cfg.max_bits = 8; cfg.max_states = 4; cfg.depth = 3;
        let sys = crate::sys::gen_sys(&mut ctx, &mut rng, &cfg, "").sys;
        for inc in [true, false] {
            let meta = match guarded(|| analyze_for_serialization(&ctx, &sys, inc)) { Ok(m) => m, Err((loc, msg)) => {
                out.put(&json!({"ev":"SigOrder","id":format!("o{i}:{inc}"),"kind":"panic","loc":loc,"msg":msg,"inc":if inc {1} else {0},"sys":{},"order":[]}));
                continue;
            } };
            let exprs: Vec<ExprRef> = meta.signal_order.iter().map(|r| r.expr).collect();
            let sysj = crate::sys::export_system_extra(&ctx, &sys, false, &exprs);
            let order: Vec<J> = meta.signal_order.iter().map(|r| json!({
                "kind": match r.kind { SerializeSignalKind::BadState => "bad", SerializeSignalKind::Constraint => "constraint", SerializeSignalKind::Output => "output",
                                       SerializeSignalKind::Input => "input", SerializeSignalKind::StateInit => "init", SerializeSignalKind::StateNext => "next", SerializeSignalKind::None => "none" },
                "next": r.uses.next, "init": r.uses.init, "other": r.uses.other, "named": if r.name.is_some() {1} else {0}})).collect();
            out.put(&json!({"ev":"SigOrder","id":format!("o{i}:{inc}"),"kind":"ok","loc":"","msg":"","inc":if inc {1} else {0},"sys":sysj,"order":order}));
        }
    }
    let n = out.n;
    out.finish();
    println!("{}", json!({"records": n}));
}
