//! C08 / C18: the btor2 reader.  Generates btor2 files as structured line records + text (own renderer,
//! nothing shared with patronus' lexer), runs patronus::btor2::parse_str and exports what it returned.
use crate::ex::*;
use crate::sys::*;
use crate::{flag, flag_u};

#[derive(Clone, Debug)]
pub struct Line {
    pub id: i64,
    pub tag: String,
    pub op: String,
    pub sort: i64,
    pub a: Vec<i64>,
    pub at: Vec<i64>,
    pub val: Vec<u8>,   // LSB first
    pub base: String,   // const | constd | consth | zero | one | ones
    pub name: String,
    pub sw: i64,
    pub si: i64,
    pub se: i64,
}
impl Line {
    fn new(id: i64, tag: &str) -> Self {
        Line { id, tag: tag.into(), op: String::new(), sort: 0, a: vec![], at: vec![], val: vec![], base: String::new(), name: String::new(), sw: 0, si: 0, se: 0 }
    }
    pub fn json(&self) -> J {
        json!({"id":self.id,"tag":self.tag,"op":self.op,"sort":self.sort,"a":self.a,"at":self.at,"val":self.val,"name":self.name,"sw":self.sw,"si":self.si,"se":self.se})
    }
    pub fn text(&self) -> String {
        let args = |v: &Vec<i64>| v.iter().map(|x| x.to_string()).collect::<Vec<_>>().join(" ");
        let nm = if self.name.is_empty() { String::new() } else { format!(" {}", self.name) };
        match self.tag.as_str() {
            "sort_bv" => format!("{} sort bitvec {}", self.id, self.sw),
            "sort_arr" => format!("{} sort array {} {}", self.id, self.si, self.se),
            "input" | "state" => format!("{} {} {}{}", self.id, self.tag, self.sort, nm),
            "const" => {
                let w = self.val.len();
                let v: u128 = self.val.iter().enumerate().map(|(i, b)| (*b as u128) << i).sum();
                match self.base.as_str() {
                    "const" => format!("{} const {} {}", self.id, self.sort, self.val.iter().rev().map(|b| b.to_string()).collect::<String>()),
                    "consth" => format!("{} consth {} {:x}", self.id, self.sort, v),
                    "constd_neg" => { let m = (1u128 << w) - v; format!("{} constd {} -{}", self.id, self.sort, m) }
                    "constd" => format!("{} constd {} {}", self.id, self.sort, v),
                    b => format!("{} {} {}", self.id, b, self.sort),
                }
            }
            "op" => {
                let mut s = format!("{} {} {} {}", self.id, self.op, self.sort, args(&self.a));
                if !self.at.is_empty() && ["slice", "uext", "sext"].contains(&self.op.as_str()) { s.push(' '); s.push_str(&args(&self.at)); }
                s + &nm
            }
            "init" | "next" => format!("{} {} {} {}", self.id, self.tag, self.sort, args(&self.a)),
            _ => format!("{} {} {}{}", self.id, self.tag, args(&self.a), nm),
        }
    }
}

#[derive(Clone, Copy, PartialEq, Debug)]
enum Ty { Bv(u32), Arr(u32, u32) }

struct FileGen {
    lines: Vec<Line>,
    next_id: i64,
    bv_sorts: Vec<(u32, i64)>,
    arr_sorts: Vec<((u32, u32), i64)>,
    nodes: Vec<(i64, Ty)>,
}
impl FileGen {
    fn new() -> Self { FileGen { lines: vec![], next_id: 1, bv_sorts: vec![], arr_sorts: vec![], nodes: vec![] } }
    fn id(&mut self) -> i64 { let i = self.next_id; self.next_id += 1; i }
    fn bv_sort(&mut self, w: u32) -> i64 {
        if let Some((_, s)) = self.bv_sorts.iter().find(|(x, _)| *x == w) { return *s; }
        let id = self.id();
        let mut l = Line::new(id, "sort_bv"); l.sw = w as i64; self.lines.push(l);
        self.bv_sorts.push((w, id));
        id
    }
    fn sort_of(&mut self, t: Ty) -> i64 {
        match t {
            Ty::Bv(w) => self.bv_sort(w),
            Ty::Arr(iw, dw) => {
                if let Some((_, s)) = self.arr_sorts.iter().find(|(x, _)| *x == (iw, dw)) { return *s; }
                let (si, se) = (self.bv_sort(iw), self.bv_sort(dw));
                let id = self.id();
                let mut l = Line::new(id, "sort_arr"); l.si = si; l.se = se; self.lines.push(l);
                self.arr_sorts.push(((iw, dw), id));
                id
            }
        }
    }
    fn node(&mut self, mut l: Line, t: Ty) -> i64 {
        l.sort = self.sort_of(t);
        l.id = self.id();
        let id = l.id;
        self.lines.push(l);
        self.nodes.push((id, t));
        id
    }
    fn pick(&self, rng: &mut SmallRng, t: Ty) -> Option<i64> {
        let c: Vec<i64> = self.nodes.iter().filter(|(_, x)| *x == t).map(|(i, _)| *i).collect();
        c.choose(rng).cloned()
    }
    fn constant(&mut self, rng: &mut SmallRng, w: u32) -> i64 {
        let mut l = Line::new(0, "const");
        let v = rnd_bv(rng, w);
        l.val = v.to_bit_str().chars().rev().map(|c| if c == '1' { 1 } else { 0 }).collect();
        let is_zero = l.val.iter().all(|b| *b == 0);
        let is_ones = l.val.iter().all(|b| *b == 1);
        let is_one = l.val[0] == 1 && l.val[1..].iter().all(|b| *b == 0);
        l.base = match rng.random_range(0..7) {
            0 => "const", 1 => "consth", 2 => "constd",
            3 if !is_zero && w >= 2 && l.val[w as usize - 1] == 1 => "constd_neg",
            4 if is_zero => "zero", 5 if is_one => "one", 6 if is_ones => "ones",
            _ => "const",
        }.to_string();
        self.node(l, Ty::Bv(w))
    }
    /// operand of type t: an existing node (possibly negated) or a fresh constant
    fn operand(&mut self, rng: &mut SmallRng, t: Ty) -> i64 {
        match t {
            Ty::Bv(w) => {
                let r = if rng.random_range(0..6) == 0 { None } else { self.pick(rng, t) };
                let id = r.unwrap_or_else(|| self.constant(rng, w));
                if rng.random_range(0..4) == 0 { -id } else { id }
            }
            Ty::Arr(..) => self.pick(rng, t).expect("array operand"),
        }
    }
    fn op(&mut self, rng: &mut SmallRng, op: &str, t: Ty, a: Vec<i64>, at: Vec<i64>) -> i64 {
        let mut l = Line::new(0, "op");
        l.op = op.into(); l.a = a; l.at = at;
        if rng.random_range(0..5) == 0 { l.name = format!("n{}", self.next_id + 1); }
        self.node(l, t)
    }
}

const BIN_SAME: [&str; 17] = ["and", "nand", "nor", "or", "xnor", "xor", "sll", "sra", "srl", "add", "mul", "sub", "udiv", "urem", "sdiv", "srem", "smod"];
const CMPS: [&str; 10] = ["eq", "neq", "sgt", "ugt", "sgte", "ugte", "slt", "ult", "slte", "ulte"];

fn add_random_op(g: &mut FileGen, rng: &mut SmallRng, widths: &[u32], arrays: &[(u32, u32)]) {
    let w = *widths.choose(rng).unwrap();
    match rng.random_range(0..13) {
        0 => { let op = *["not", "neg"].choose(rng).unwrap(); let a = g.operand(rng, Ty::Bv(w)); g.op(rng, op, Ty::Bv(w), vec![a], vec![]); }
        1 => { let op = *["redand", "redor", "redxor"].choose(rng).unwrap(); let a = g.operand(rng, Ty::Bv(w)); g.op(rng, op, Ty::Bv(1), vec![a], vec![]); }
        2 => { let hi = rng.random_range(0..w); let lo = rng.random_range(0..=hi); let a = g.operand(rng, Ty::Bv(w)); g.op(rng, "slice", Ty::Bv(hi - lo + 1), vec![a], vec![hi as i64, lo as i64]); }
        3 => { let op = *["uext", "sext"].choose(rng).unwrap(); let by = rng.random_range(0..3u32); let a = g.operand(rng, Ty::Bv(w)); g.op(rng, op, Ty::Bv(w + by), vec![a], vec![by as i64]); }
        4 => { let op = *["iff", "implies"].choose(rng).unwrap(); let (a, b) = (g.operand(rng, Ty::Bv(1)), g.operand(rng, Ty::Bv(1))); g.op(rng, op, Ty::Bv(1), vec![a, b], vec![]); }
        5 | 6 => { let op = *CMPS.choose(rng).unwrap(); let (a, b) = (g.operand(rng, Ty::Bv(w)), g.operand(rng, Ty::Bv(w))); g.op(rng, op, Ty::Bv(1), vec![a, b], vec![]); }
        7 | 8 => { let op = *BIN_SAME.choose(rng).unwrap(); let (a, b) = (g.operand(rng, Ty::Bv(w)), g.operand(rng, Ty::Bv(w))); g.op(rng, op, Ty::Bv(w), vec![a, b], vec![]); }
        9 => { let w2 = *widths.choose(rng).unwrap(); let (a, b) = (g.operand(rng, Ty::Bv(w)), g.operand(rng, Ty::Bv(w2))); g.op(rng, "concat", Ty::Bv(w + w2), vec![a, b], vec![]); }
        10 => { let (c, a, b) = (g.operand(rng, Ty::Bv(1)), g.operand(rng, Ty::Bv(w)), g.operand(rng, Ty::Bv(w))); g.op(rng, "ite", Ty::Bv(w), vec![c, a, b], vec![]); }
        11 if !arrays.is_empty() => {
            let (iw, dw) = *arrays.choose(rng).unwrap();
            if g.pick(rng, Ty::Arr(iw, dw)).is_some() {
                let m = g.operand(rng, Ty::Arr(iw, dw));
                let i = g.operand(rng, Ty::Bv(iw));
                if rng.random_bool(0.5) { g.op(rng, "read", Ty::Bv(dw), vec![m, i], vec![]); }
                else { let d = g.operand(rng, Ty::Bv(dw)); g.op(rng, "write", Ty::Arr(iw, dw), vec![m, i, d], vec![]); }
            }
        }
        12 if !arrays.is_empty() => {
            let (iw, dw) = *arrays.choose(rng).unwrap();
            if g.pick(rng, Ty::Arr(iw, dw)).is_some() {
                let (m, n) = (g.operand(rng, Ty::Arr(iw, dw)), g.operand(rng, Ty::Arr(iw, dw)));
                if rng.random_bool(0.5) { let op = *["eq", "neq"].choose(rng).unwrap(); g.op(rng, op, Ty::Bv(1), vec![m, n], vec![]); }
                else { let c = g.operand(rng, Ty::Bv(1)); g.op(rng, "ite", Ty::Arr(iw, dw), vec![c, m, n], vec![]); }
            }
        }
        _ => { let (a, b) = (g.operand(rng, Ty::Bv(w)), g.operand(rng, Ty::Bv(w))); g.op(rng, "xor", Ty::Bv(w), vec![a, b], vec![]); }
    }
}

/// a random well-formed file over the supported operator set
pub fn gen_file(rng: &mut SmallRng) -> Vec<Line> {
    let mut g = FileGen::new();
    let widths: Vec<u32> = vec![1, 2, 3];
    let arrays: Vec<(u32, u32)> = if rng.random_bool(0.4) { vec![(1, 2)] } else { vec![] };
    let mut bits = 0;
    let mut states: Vec<(i64, Ty)> = vec![];
    for k in 0..rng.random_range(1..=2) {
        let w = *widths.choose(rng).unwrap();
        if bits + w > 5 { break; }
        bits += w;
        let mut l = Line::new(0, "input"); l.name = format!("in{k}");
        g.node(l, Ty::Bv(w));
    }
    for k in 0..rng.random_range(1..=3) {
        let t = if !arrays.is_empty() && k == 0 { bits += 4; Ty::Arr(1, 2) } else { let w = *widths.choose(rng).unwrap(); if bits + w > 9 { break; } bits += w; Ty::Bv(w) };
        let mut l = Line::new(0, "state"); l.name = format!("st{k}");
        let id = g.node(l, t);
        states.push((id, t));
    }
    // init lines (over constants / earlier states only)
    for (k, (sid, t)) in states.clone().iter().enumerate() {
        if rng.random_bool(0.6) {
            let v = match t {
                Ty::Bv(w) => { if k > 0 && rng.random_bool(0.3) { g.pick(rng, *t).filter(|x| x < sid && states.iter().any(|(s, _)| s == x)).unwrap_or_else(|| g.constant(rng, *w)) } else { g.constant(rng, *w) } }
                Ty::Arr(_, dw) => g.constant(rng, *dw),   // bit-vector init of an array state
            };
            let mut l = Line::new(g.id(), "init"); l.sort = g.sort_of(*t); l.a = vec![*sid, v];
            // sort_of may have created lines after taking the id: keep ids increasing
            l.id = g.id();
            g.lines.push(l);
        }
    }
    for _ in 0..rng.random_range(2..=7) { add_random_op(&mut g, rng, &widths, &arrays); }
    for (sid, t) in states.iter() {
        if rng.random_range(0..5) > 0 {
            let v = if rng.random_range(0..6) == 0 { *sid } else { g.pick(rng, *t).unwrap_or(*sid) };
            let mut l = Line::new(0, "next"); l.sort = g.sort_of(*t); l.a = vec![*sid, v]; l.id = g.id();
            g.lines.push(l);
        }
    }
    for k in 0..rng.random_range(1..=2) {
        let (id, _) = *g.nodes.choose(rng).unwrap();
        let mut l = Line::new(g.id(), "output"); l.a = vec![id]; l.name = format!("out{k}");
        g.lines.push(l);
    }
    for (tag, n) in [("bad", rng.random_range(1..=2)), ("constraint", rng.random_range(0..=1))] {
        for _ in 0..n {
            let v = match g.pick(rng, Ty::Bv(1)) { Some(v) => if rng.random_range(0..4) == 0 { -v } else { v }, None => g.constant(rng, 1) };
            let mut l = Line::new(g.id(), tag); l.a = vec![v];
            g.lines.push(l);
        }
    }
    g.lines
}

/// mutate one line so that its declared sort disagrees with its operands (or an operand has another sort)
pub fn make_ill_sorted(rng: &mut SmallRng, lines: &mut Vec<Line>) -> bool {
    let sorts: Vec<i64> = lines.iter().filter(|l| l.tag.starts_with("sort")).map(|l| l.id).collect();
    let cands: Vec<usize> = lines.iter().enumerate().filter(|(_, l)| l.tag == "op" || l.tag == "init" || l.tag == "next").map(|(i, _)| i).collect();
    if cands.is_empty() || sorts.len() < 2 { return false; }
    let k = *cands.choose(rng).unwrap();
    if rng.random_bool(0.6) || lines[k].a.is_empty() {
        let others: Vec<i64> = sorts.iter().cloned().filter(|s| *s != lines[k].sort && *s < lines[k].id).collect();
        if let Some(s) = others.choose(rng) { lines[k].sort = *s; return true; }
        false
    } else {
        // redirect one operand to an earlier node line of a different declared sort
        let j = rng.random_range(0..lines[k].a.len());
        let cur = lines[k].a[j].abs();
        let cur_sort = lines.iter().find(|l| l.id == cur).map(|l| l.sort).unwrap_or(0);
        let others: Vec<i64> = lines.iter().filter(|l| ["input", "state", "const", "op"].contains(&l.tag.as_str()) && l.id < lines[k].id && l.sort != cur_sort).map(|l| l.id).collect();
        if let Some(o) = others.choose(rng) { lines[k].a[j] = *o; return true; }
        false
    }
}

pub fn parse_record(id: &str, lines: &[Line], text: &str) -> J {
    let mut ctx = Context::default();
    let res = guarded(|| patronus::btor2::parse_str(&mut ctx, text, Some("t")));
    let lj: Vec<J> = lines.iter().map(|l| l.json()).collect();
    match res {
        Ok(Some(sys)) => json!({"ev":"Parse","id":id,"lines":lj,"outcome":"ok","loc":"","sys":export_system(&ctx, &sys, true),"text":text.lines().collect::<Vec<_>>()}),
        Ok(None) => json!({"ev":"Parse","id":id,"lines":lj,"outcome":"none","loc":"","sys":{},"text":text.lines().collect::<Vec<_>>()}),
        Err((loc, msg)) => json!({"ev":"Parse","id":id,"lines":lj,"outcome":"panic","loc":format!("{loc}|{msg}"),"sys":{},"text":text.lines().collect::<Vec<_>>()}),
    }
}

fn render(lines: &[Line]) -> String {
    lines.iter().map(|l| l.text()).collect::<Vec<_>>().join("\n") + "\n"
}

/// one-operator file from a Btor2Gen descriptor [op, w, rw, at, neg, ar]
fn one_op_file(d: &J) -> Vec<Line> {
    let mut g = FileGen::new();
    let op = d["op"].as_str().unwrap();
    let w = d["w"].as_u64().unwrap() as u32;
    let rw = d["rw"].as_u64().unwrap() as u32;
    let ar = d["ar"].as_u64().unwrap() as usize;
    let neg: Vec<i64> = d["neg"].as_array().unwrap().iter().map(|x| x.as_i64().unwrap()).collect();
    let mut ins = vec![];
    for (k, nm) in ["a", "b", "c"].iter().enumerate() {
        let iw = if op == "ite" && k == 0 { 1 } else { w };
        let mut l = Line::new(0, if k == 1 { "state" } else { "input" }); l.name = nm.to_string();
        ins.push(g.node(l, Ty::Bv(iw)));
    }
    let a: Vec<i64> = (0..ar).map(|k| if neg[k] == 1 { -ins[k] } else { ins[k] }).collect();
    let at: Vec<i64> = if ["slice", "uext", "sext"].contains(&op) { d["at"].as_array().unwrap().iter().map(|x| x.as_i64().unwrap()).collect() } else { vec![] };
    let mut l = Line::new(0, "op"); l.op = op.into(); l.a = a; l.at = at;
    let r = g.node(l, Ty::Bv(rw));
    let mut o = Line::new(g.id(), "output"); o.a = vec![r]; o.name = "o".into(); g.lines.push(o);
    if rw == 1 { let mut b = Line::new(g.id(), "bad"); b.a = vec![r]; g.lines.push(b); let mut c = Line::new(g.id(), "constraint"); c.a = vec![-r]; g.lines.push(c); }
    // the state b gets the line as next function when the sorts agree, and a constant init
    if rw == w {
        let s = g.sort_of(Ty::Bv(w));
        let mut n = Line::new(g.id(), "next"); n.sort = s; n.a = vec![ins[1], r]; g.lines.push(n);
    } else {
        let s = g.sort_of(Ty::Bv(w));
        let mut n = Line::new(g.id(), "next"); n.sort = s; n.a = vec![ins[1], ins[1]]; g.lines.push(n);
    }
    g.lines
}

pub fn run(args: &[String]) {
    let mut out = Out::new(flag(args, "--out").expect("--out"));
    let mut rng = seed_rng(env_seed());
    if let Some(inp) = flag(args, "--in") {
        for (i, d) in read_ndjson(inp).iter().enumerate() {
            let lines = one_op_file(d);
            out.put(&parse_record(&format!("g{i}"), &lines, &render(&lines)));
        }
    }
    for i in 0..flag_u(args, "--random", 0) {
        let lines = gen_file(&mut rng);
        out.put(&parse_record(&format!("r{i}"), &lines, &render(&lines)));
        // ill-sorted variant
        let mut bad = lines.clone();
        if make_ill_sorted(&mut rng, &mut bad) {
            out.put(&parse_record(&format!("r{i}x"), &bad, &render(&bad)));
        }
    }
    let n = out.n;
    out.finish();
    println!("{}", json!({"records": n}));
}

// -------------------------------------------------------------------------------------------------
// C18: arbitrary / mutated / ill-kinded input

const EXEMPT: [&str; 14] = ["inc", "dec", "rol", "ror", "saddo", "uaddo", "sdivo", "udivo", "smulo", "umulo", "ssubo", "usubo", "fair", "justice"];

/// which documented-as-unsupported operator a panic message names (if any)
fn exempt_op(msg: &str) -> String {
    if let Some(r) = msg.strip_prefix("unexpected unary op: ") { if r == "inc" || r == "dec" { return r.to_string(); } }
    if msg.contains("bit rotates") { return "rol/ror".into(); }
    if msg.contains("overflow operators") { return "overflow".into(); }
    if msg.contains("fairness constraints") { return "fair".into(); }
    if let Some(r) = msg.strip_prefix("TODO: implement support for ") { if r.starts_with("justice") { return "justice".into(); } }
    String::new()
}

fn c18_record(id: &str, text: &str) -> J {
    let mut ctx = Context::default();
    let res = guarded(|| patronus::btor2::parse_str(&mut ctx, text, Some("t")));
    let ops: Vec<String> = {
        let mut v: Vec<String> = text.lines().filter_map(|l| l.split_whitespace().nth(1).map(|s| s.to_string())).filter(|t| EXEMPT.contains(&t.as_str())).collect();
        v.sort(); v.dedup(); v
    };
    let head: Vec<&str> = text.lines().take(40).collect();
    match res {
        Ok(Some(sys)) => {
            let mw = max_width(&ctx, &sys);
            if mw > 4096 {
                // too wide to export bit by bit: accepted but not type-checked by TLC (counted separately)
                json!({"ev":"Parse","id":id,"outcome":"ok-unchecked","loc":format!("max width {mw}"),"msg":"","exempt_op":"","ops":ops,"sys":{},"text":head,"fault_op":"","fault_line":"","at":""})
            } else {
                json!({"ev":"Parse","id":id,"outcome":"ok","loc":"","msg":"","exempt_op":"","ops":ops,"sys":export_system(&ctx, &sys, false),"text":head,"fault_op":"","fault_line":"","at":""})
            }
        }
        Ok(None) => json!({"ev":"Parse","id":id,"outcome":"none","loc":"","msg":"","exempt_op":"","ops":ops,"sys":{},"text":head,"fault_op":"","fault_line":"","at":""}),
        Err((loc, msg)) => {
            // which line is at fault: the shortest prefix of the text that still panics
            let ls: Vec<&str> = text.lines().collect();
            let mut fault_op = String::new();
            let mut fault_line = String::new();
            for k in 1..=ls.len() {
                let prefix = ls[..k].join("\n") + "\n";
                let mut c2 = Context::default();
                if guarded(|| patronus::btor2::parse_str(&mut c2, &prefix, Some("t"))).is_err() {
                    fault_op = ls[k - 1].split_whitespace().nth(1).unwrap_or("").to_string();
                    fault_line = ls[k - 1].to_string();
                    break;
                }
            }
            let file = loc.rsplit_once(':').map(|(f, _)| f.to_string()).unwrap_or(loc.clone());
            json!({"ev":"Parse","id":id,"outcome":"panic","loc":file,"msg":msg,"exempt_op":exempt_op(&msg),"ops":ops,"sys":{},"text":head,"fault_op":fault_op,"fault_line":fault_line,"at":loc})
        }
    }
}

fn mutate_text(rng: &mut SmallRng, text: &str) -> String {
    let mut lines: Vec<String> = text.lines().map(|s| s.to_string()).collect();
    if lines.is_empty() { return String::new(); }
    let ops = ["add", "and", "concat", "slice", "uext", "sext", "read", "write", "ite", "eq", "ult", "not", "redor", "inc", "rol", "saddo", "sort", "state", "input", "init", "next", "bad", "constraint", "output", "const", "constd", "consth", "zero", "one", "ones", "xyz", "fair", "justice", "mul", "sdiv", "srl"];
    for _ in 0..rng.random_range(1..=3) {
        let k = rng.random_range(0..lines.len());
        match rng.random_range(0..12) {
            0 => { lines.remove(k); if lines.is_empty() { lines.push(String::new()); } }
            1 => { let l = lines[k].clone(); lines.insert(k, l); }
            2 => { let j = rng.random_range(0..lines.len()); lines.swap(k, j); }
            3 | 4 => { // perturb a number
                let mut toks: Vec<String> = lines[k].split_whitespace().map(|s| s.to_string()).collect();
                if !toks.is_empty() {
                    let t = rng.random_range(0..toks.len());
                    if let Ok(n) = toks[t].parse::<i64>() {
                        toks[t] = match rng.random_range(0..6) { 0 => (n + 1).to_string(), 1 => (n - 1).to_string(), 2 => (-n).to_string(), 3 => "0".into(), 4 => rng.random_range(1..40).to_string(), _ => (n / 2).to_string() };
                    }
                    lines[k] = toks.join(" ");
                }
            }
            5 => { // blow up a number
                let mut toks: Vec<String> = lines[k].split_whitespace().map(|s| s.to_string()).collect();
                if toks.len() > 2 { let t = rng.random_range(2..toks.len()); toks[t] = ["4294967295", "4294967296", "18446744073709551616", "99999999999999999999999", "-9223372036854775808"].choose(rng).unwrap().to_string(); lines[k] = toks.join(" "); }
            }
            6 | 7 => { // replace the operator
                let mut toks: Vec<String> = lines[k].split_whitespace().map(|s| s.to_string()).collect();
                if toks.len() > 1 { toks[1] = ops.choose(rng).unwrap().to_string(); lines[k] = toks.join(" "); }
            }
            8 => { let mut toks: Vec<String> = lines[k].split_whitespace().map(|s| s.to_string()).collect(); toks.pop(); lines[k] = toks.join(" "); }
            9 => { lines[k].push_str(" \u{00e9}\u{4e16}\u{1F600}"); }
            10 => { let cut = rng.random_range(0..=lines[k].len()); let mut c = cut; while !lines[k].is_char_boundary(c) { c -= 1; } lines[k].truncate(c); }
            _ => { // byte-level
                let mut b = lines[k].clone().into_bytes();
                if !b.is_empty() { let p = rng.random_range(0..b.len()); b[p] = *b" -0123456789;[]azZ\t".choose(rng).unwrap(); }
                lines[k] = String::from_utf8_lossy(&b).to_string();
            }
        }
    }
    lines.join("\n") + "\n"
}

/// systematically ill-kinded one-operator file: operand `pos` of `op` gets the wrong kind
fn ill_kinded(d: &J) -> String {
    let op = d["op"].as_str().unwrap();
    let pos = d["pos"].as_u64().unwrap() as usize;
    let kind = d["kind"].as_str().unwrap();
    if kind == "known" {
        return match op {
            "arrofarr_index" => "1 sort bitvec 2\n2 sort array 1 1\n3 sort array 2 1\n4 state 3 m\n".into(),
            "arrofarr_data" => "1 sort bitvec 2\n2 sort array 1 1\n3 sort array 1 2\n4 state 3 m\n".into(),
            "constd_fit" => "1 sort bitvec 1\n2 constd 1 99999\n3 output 2 o\n".into(),
            "consth_fit" => "1 sort bitvec 3\n2 consth 1 fff\n3 output 2 o\n".into(),
            _ => "1 sort bitvec 2\n2 const 1 10101\n3 output 2 o\n".into(),
        };
    }
    if kind == "hugesort" {
        let mut t = String::from("1 sort bitvec 4294967295\n2 input 1 a\n3 sort bitvec 1\n");
        match op { "slice" => t.push_str("4 slice 3 2 4294967294 4294967294\n"), "not" => t.push_str("4 not 1 2\n"), _ => t.push_str(&format!("4 {op} 3 2\n")) }
        t.push_str("5 output 4 o\n");
        return t;
    }
    if kind == "attr" {
        let mut t = String::from("1 sort bitvec 2\n2 sort bitvec 1\n3 sort bitvec 3\n4 input 1 a\n");
        if op == "slice" { t.push_str(&format!("5 slice {} 4 {} {}\n", d["sort"], d["st"], d["ex"])); }
        else { t.push_str(&format!("5 {op} {} 4 {}\n", d["sort"], d["st"])); }
        t.push_str("6 output 5 o\n");
        return t;
    }
    if kind == "line" {
        let mut t = String::from("1 sort bitvec 2\n2 sort bitvec 1\n3 sort array 1 1\n4 sort array 2 1\n5 sort array 1 2\n6 input 1 a\n7 input 2 c\n8 state 3 m\n9 state 1 s\n10 state 4 m2\n11 state 5 m3\n12 state 2 s1\n");
        if op == "init" || op == "next" {
            t.push_str(&format!("13 {op} {} {} {}\n", d["sort"], d["st"], d["ex"]));
        } else {
            t.push_str(&format!("13 {op} {}\n", d["ex"]));
        }
        return t;
    }
    // 1: bv2, 2: bv1, 3: array 2->2 sorts; 4,5: bv2 inputs; 6: bv1 input; 7: array state; 8: bv2 state
    let mut t = String::from("1 sort bitvec 2\n2 sort bitvec 1\n3 sort array 1 1\n4 input 1 a\n5 input 1 b\n6 input 2 c\n7 state 3 m\n8 state 1 s\n");
    let arity = d["ar"].as_u64().unwrap() as usize;
    let is_arr_op = op == "read" || op == "write";
    let mut args: Vec<String> = match op {
        "ite" => vec!["6".into(), "4".into(), "5".into()],
        "read" => vec!["7".into(), "4".into()],
        "write" => vec!["7".into(), "4".into(), "5".into()],
        "iff" | "implies" => vec!["6".into(), "6".into()],
        _ => (0..arity).map(|k| if k == 0 { "4".to_string() } else { "5".to_string() }).collect(),
    };
    let wrong = match kind {
        "array" => if is_arr_op && pos == 1 { "4" } else { "7" },
        "sort" => "1",
        "arrsort" => "3",
        "undefined" => "99",
        "self" => "9",
        "neg_array" => "-7",
        "neg_sort" => "-1",
        "zero" => "0",
        "other_width" => "6",
        "huge" => "4294967297",
        _ => "7",
    };
    if pos >= 1 && pos <= args.len() { args[pos - 1] = wrong.to_string(); }
    let res_sort = match op { "redand" | "redor" | "redxor" | "eq" | "neq" | "ult" | "ugt" | "slt" | "sgt" | "ulte" | "ugte" | "slte" | "sgte" | "iff" | "implies" => "2", "write" => "3", "concat" => "1", _ => "1" };
    let attrs = match op { "slice" => " 1 0", "uext" | "sext" => " 0", _ => "" };
    t.push_str(&format!("9 {op} {res_sort} {}{attrs}\n", args.join(" ")));
    t.push_str("10 output 9 o\n");
    if kind == "bad_wide" { t.push_str("11 bad 4\n12 constraint 5\n"); }
    t
}

fn max_width(ctx: &Context, sys: &patronus::system::TransitionSystem) -> u64 {
    let mut m = 0u64;
    let mut seen = std::collections::HashSet::new();
    let mut todo: Vec<ExprRef> = sys.get_all_exprs();
    while let Some(e) = todo.pop() {
        if !seen.insert(e) { continue; }
        match e.get_type(ctx) { Type::BV(w) => m = m.max(w as u64), Type::Array(a) => m = m.max(a.index_width as u64).max(a.data_width as u64) }
        ctx[e].for_each_child(|c| todo.push(*c));
    }
    m
}

/// Parent: runs the inputs in a memory-limited worker process; an input that kills the worker (abort, stack
/// overflow, allocation failure) is recorded as outcome "abort" and the worker is restarted after it.
pub fn run_c18(args: &[String]) {
    if flag(args, "--worker").is_some() { return worker_c18(args); }
    let out_path = flag(args, "--out").expect("--out").to_string();
    let _ = std::fs::remove_file(&out_path);
    let _ = std::fs::remove_file(format!("{out_path}.summary"));
    let prog = format!("{out_path}.progress");
    let exe = std::env::current_exe().unwrap();
    let mut start = 0u64;
    let mut aborts = 0;
    loop {
        let _ = std::fs::write(&prog, format!("{start}"));
        let mut cmdline = format!("ulimit -v 6000000; exec {} c18 --worker 1 --start {}", exe.display(), start);
        for a in args { cmdline.push(' '); cmdline.push_str(a); }
        let st = std::process::Command::new("sh").arg("-c").arg(&cmdline).stderr(std::process::Stdio::null()).status().expect("spawn worker");
        let done: u64 = std::fs::read_to_string(&prog).ok().and_then(|s| s.trim().parse().ok()).unwrap_or(start);
        if st.success() { break; }
        // input number `done` killed the worker (cut off a partial last line first)
        use std::io::Write;
        if let Ok(bytes) = std::fs::read(&out_path) {
            let keep = bytes.iter().rposition(|b| *b == b'\n').map(|p| p + 1).unwrap_or(0);
            if keep != bytes.len() { let _ = std::fs::write(&out_path, &bytes[..keep]); }
        }
        let mut f = std::fs::OpenOptions::new().append(true).create(true).open(&out_path).unwrap();
        let cur = std::fs::read(format!("{out_path}.current")).map(|b| String::from_utf8_lossy(&b).to_string()).unwrap_or_default();
        let lines: Vec<String> = cur.lines().take(400).map(|l| l.chars().take(200).collect()).collect();
        // A file that declares a sort of 2^24 bits or more makes the reader allocate values of that width (512 MB each at
        // 2^32 - 1 bits): running out of the 6 GB this worker is allowed is a limit of the harness, not a verdict about the
        // reader - counted as ok-unchecked.  The one exception is kept as an abort: `redxor`, which needs 17 GB in a single
        // allocation for a five-line file (KF-C18-redxor-huge).
        let toks: Vec<Vec<&str>> = cur.lines().map(|l| l.split_whitespace().collect()).collect();
        let huge = toks.iter().any(|t| t.len() >= 4 && t[1] == "sort" && t[2] == "bitvec" && t[3].parse::<u64>().map(|w| w >= 1 << 24).unwrap_or(false));
        let redxor = toks.iter().any(|t| t.len() >= 2 && t[1] == "redxor");
        let outcome = if huge && !redxor { "ok-unchecked" } else { "abort" };
        writeln!(f, "{}", json!({"ev":"Parse","id":format!("i{done}"),"outcome":outcome,"loc":format!("{st}"),"msg":"worker process died","exempt_op":"","ops":[],"sys":{},"text":lines,"fault_op":"","fault_line":"","at":""})).unwrap();
        aborts += 1;
        start = done + 1;
        if aborts > 200 { break; }
    }
    let n = std::fs::read_to_string(&out_path).map(|s| s.lines().count()).unwrap_or(0);
    let summary = std::fs::read_to_string(format!("{out_path}.summary")).unwrap_or_else(|_| "{}".into());
    let sj: J = serde_json::from_str(&summary).unwrap_or(json!({}));
    println!("{}", json!({"records": n, "aborts": aborts, "worker": sj}));
}

fn worker_c18(args: &[String]) {
    use std::io::Write;
    let out_path = flag(args, "--out").expect("--out").to_string();
    let prog = format!("{out_path}.progress");
    let start = flag_u(args, "--start", 0);
    let mut f = std::fs::OpenOptions::new().append(true).create(true).open(&out_path).unwrap();
    let seed = env_seed();
    let ill: Vec<J> = flag(args, "--in").map(read_ndjson).unwrap_or_default();
    let n = flag_u(args, "--mutants", 0);
    let max_lines = flag_u(args, "--max-lines", 400) as usize;
    let corpus: Vec<String> = {
        let mut v = vec![];
        fn walk(d: &std::path::Path, v: &mut Vec<String>, max_lines: usize) {
            if let Ok(rd) = std::fs::read_dir(d) {
                let mut ents: Vec<_> = rd.flatten().collect();
                ents.sort_by_key(|e| e.path());
                for e in ents { let p = e.path(); if p.is_dir() { walk(&p, v, max_lines); } else if p.extension().map(|x| x == "btor" || x == "btor2").unwrap_or(false) {
                    if let Ok(t) = std::fs::read_to_string(&p) { if t.lines().count() <= max_lines { v.push(t); } } } }
            }
        }
        walk(std::path::Path::new("/repo/inputs"), &mut v, max_lines);
        v
    };
    let mut counts = std::collections::BTreeMap::<String, usize>::new();
    let total = ill.len() as u64 + n;
    // the inputs are dealt round-robin to `--shards` worker processes (each with its own output file)
    let (shard, nshards) = (flag_u(args, "--shard", 0), flag_u(args, "--shards", 1).max(1));
    let (cap_none, cap_panic) = ((50 / nshards as usize).max(4), (40 / nshards as usize).max(4));
    let mut mine = 0u64;
    for i in start..total {
        if i % nshards != shard { continue; }
        mine += 1;
        std::fs::write(&prog, format!("{i}")).unwrap();
        let mut rng = seed_rng(seed.wrapping_mul(1000003).wrapping_add(i));
        let (id, text, keep_all) = if (i as usize) < ill.len() {
            let d = &ill[i as usize];
            (format!("g{i}:{}:{}:{}:{}:{}:{}", d["op"].as_str().unwrap(), d["pos"], d["kind"].as_str().unwrap(), d["sort"], d["st"], d["ex"]), ill_kinded(d), true)
        } else {
            let base = if i % 3 == 0 { render(&gen_file(&mut rng)) } else { corpus.choose(&mut rng).cloned().unwrap_or_default() };
            (format!("m{i}"), mutate_text(&mut rng, &base), false)
        };
        // (the supervisor reports the text of an input that kills this process)
        let _ = std::fs::write(format!("{out_path}.current"), &text);
        let r = c18_record(&id, &text);
        let key = format!("{}|{}|{}", r["outcome"].as_str().unwrap(), r["loc"].as_str().unwrap(), r["fault_op"].as_str().unwrap_or(""));
        let c = counts.entry(key).or_insert(0);
        *c += 1;
        if r["outcome"] == "none" && *c > cap_none && !keep_all { continue; }
        if r["outcome"] == "panic" && *c > cap_panic { continue; }
        writeln!(f, "{}", r).unwrap();
        f.flush().unwrap();
    }
    std::fs::write(&prog, format!("{total}")).unwrap();
    // (a restarted worker only counts the inputs after the one that killed its predecessor: add to what is there)
    let prev: u64 = std::fs::read_to_string(format!("{out_path}.summary")).ok().and_then(|t| serde_json::from_str::<J>(&t).ok()).and_then(|j| j["inputs"].as_u64()).unwrap_or(0);
    std::fs::write(format!("{out_path}.summary"), json!({"inputs": prev + mine, "outcomes_last_worker": counts}).to_string()).unwrap();
}
