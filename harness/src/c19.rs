//! C19: arithmetic e-graph rewrites.  For every rule returned by create_rewrites() and every assignment of
//! widths / signs to its pattern variables for which the real eval_condition holds, both patterns are
//! instantiated (operands become symbols) and lowered with the real from_arith; the two expressions are
//! exported for TLC (relation of Trace_C01: same width, equal under all operand values).  Also the
//! to_arith / from_arith round trip on generated expressions of the convertible fragment.
use crate::ex::*;
use crate::{flag, flag_u};
use egg::{ENodeOrVar, Language, PatternAst, RecExpr, Var};
use patronus_egraphs::*;
use std::collections::BTreeMap;

#[derive(Clone, Copy, PartialEq, Debug)]
enum Role { Width, OperandWidth, Sign, Value }

fn roles(p: &PatternAst<Arith>, out: &mut BTreeMap<String, Role>) {
    let nodes = p.as_ref();
    let var_of = |id: egg::Id| -> Option<String> { if let ENodeOrVar::Var(v) = &nodes[usize::from(id)] { Some(v.to_string()) } else { None } };
    for n in nodes.iter() {
        if let ENodeOrVar::ENode(e) = n {
            let ch = e.children();
            if is_bin_op(e) {
                for (pos, c) in ch.iter().enumerate() {
                    if let Some(v) = var_of(*c) {
                        let is_operand_width = (pos == 1 && var_of(ch[3]).is_some()) || (pos == 4 && var_of(ch[6]).is_some());
                        let r = match pos { 0 => Role::Width, 1 | 4 => if is_operand_width { Role::OperandWidth } else { Role::Width }, 2 | 5 => Role::Sign, _ => Role::Value };
                        let cur = out.get(&v).cloned();
                        // an operand width stays an operand width wherever else the variable occurs
                        if cur != Some(Role::OperandWidth) { out.insert(v, r); }
                    }
                }
            } else {
                for c in ch.iter() { if let Some(v) = var_of(*c) { out.entry(v).or_insert(Role::Width); } }
            }
        }
    }
}

fn instantiate(p: &PatternAst<Arith>, asg: &BTreeMap<String, u32>, roles: &BTreeMap<String, Role>) -> Result<RecExpr<Arith>, String> {
    let text = format!("{}", p);
    let toks: Vec<String> = text.replace('(', " ( ").replace(')', " ) ").split_whitespace().map(|t| {
        if let Some(r) = roles.get(t) {
            match r {
                Role::Width | Role::OperandWidth => format!("W<{}>", asg[t]),
                Role::Sign => if asg[t] == 1 { "sign".to_string() } else { "unsign".to_string() },
                Role::Value => t.trim_start_matches('?').to_string(),
            }
        } else { t.to_string() }
    }).collect();
    let s = toks.join(" ").replace("( ", "(").replace(" )", ")");
    s.parse::<RecExpr<Arith>>().map_err(|e| format!("{e:?}: {s}"))
}

fn pair_record(id: &str, ctx: &Context, lhs: ExprRef, rhs: Result<ExprRef, (String, String)>, extra: J) -> J {
    match rhs {
        Ok(r) => {
            let (nodes, ix) = export_many(ctx, &[lhs, r]);
            json!({"ev":"Simplify","id":id,"nodes":nodes,"root":ix[0],"outs":[{"api":"rhs","kind":"ok","roots":[ix[1]],"loc":"","msg":""}],"cache":[],"info":extra})
        }
        Err((loc, msg)) => {
            let (nodes, ix) = export_many(ctx, &[lhs]);
            json!({"ev":"Simplify","id":id,"nodes":nodes,"root":ix[0],"outs":[{"api":"rhs","kind":"panic","roots":[],"loc":loc,"msg":msg}],"cache":[],"info":extra})
        }
    }
}

pub fn run(args: &[String]) {
    let mut out = Out::new(flag(args, "--out").expect("--out"));
    let mut rng = seed_rng(env_seed());
    let max_op_w = flag_u(args, "--max-operand-width", 3) as u32;
    let max_w = flag_u(args, "--max-width", 8) as u32;
    let mut stats = serde_json::Map::new();
    for rule in create_rewrites() {
        let (lhs, rhs) = rule.patterns();
        let mut rl = BTreeMap::new();
        roles(lhs, &mut rl);
        roles(rhs, &mut rl);
        let vars: Vec<(String, Role)> = rl.iter().filter(|(_, r)| **r != Role::Value).map(|(k, r)| (k.clone(), *r)).collect();
        let ranges: Vec<u32> = vars.iter().map(|(_, r)| match r { Role::Sign => 2, Role::OperandWidth => max_op_w, _ => max_w }).collect();
        let total: u64 = ranges.iter().map(|r| *r as u64).product();
        let (mut n_cond, mut n_all) = (0u64, 0u64);
        for code in 0..total {
            let mut c = code;
            let mut asg = BTreeMap::new();
            for ((v, r), range) in vars.iter().zip(ranges.iter()) {
                let d = (c % *range as u64) as u32; c /= *range as u64;
                asg.insert(v.clone(), if *r == Role::Sign { d } else { d + 1 });
            }
            n_all += 1;
            let cond_in: Vec<(Var, WidthInt)> = asg.iter().map(|(k, v)| (k.parse::<Var>().unwrap(), *v)).collect();
            let cond = match guarded(|| rule.eval_condition(&cond_in)) { Ok(c) => c, Err(_) => false };
            if !cond { continue; }
            n_cond += 1;
            let id = format!("{}:{}", rule.name(), asg.iter().map(|(k, v)| format!("{}={}", k.trim_start_matches('?'), v)).collect::<Vec<_>>().join(","));
            let (le, re) = match (instantiate(lhs, &asg, &rl), instantiate(rhs, &asg, &rl)) { (Ok(l), Ok(r)) => (l, r), (l, r) => { eprintln!("instantiate failed {:?} {:?}", l.err(), r.err()); continue; } };
            let mut ctx = Context::default();
            let l = match guarded(|| from_arith(&mut ctx, &le)) { Ok(l) => l, Err(_) => continue };
            let r = guarded(|| from_arith(&mut ctx, &re));
            out.put(&pair_record(&id, &ctx, l, r, json!({"rule": rule.name(), "lhs": format!("{}", le), "rhs": format!("{}", re)})));
        }
        stats.insert(rule.name().to_string(), json!({"assignments": n_all, "condition_holds": n_cond}));
    }
    // round trip to_arith / from_arith on the convertible fragment
    let nrt = flag_u(args, "--roundtrip", 0);
    for i in 0..nrt {
        let mut ctx = Context::default();
        let syms: Vec<ExprRef> = ["a", "b", "c"].iter().map(|n| { let w = rng.random_range(1..=3); ctx.bv_symbol(n, w) }).collect();
        fn gen_e(ctx: &mut Context, rng: &mut SmallRng, syms: &[ExprRef], d: u32) -> ExprRef {
            if d == 0 { return *syms.choose(rng).unwrap(); }
            let w = rng.random_range(2..=6u32);
            let mut operand = |ctx: &mut Context, rng: &mut SmallRng| -> ExprRef {
                let e = gen_e(ctx, rng, syms, d - 1);
                let ew = e.get_bv_type(ctx).unwrap();
                if ew < w { if rng.random_bool(0.5) { ctx.zero_extend(e, w - ew) } else { ctx.sign_extend(e, w - ew) } } else if ew > w { ctx.slice(e, w - 1, 0) } else { e }
            };
            let (a, b) = (operand(ctx, rng), operand(ctx, rng));
            match rng.random_range(0..6) { 0 => ctx.add(a, b), 1 => ctx.sub(a, b), 2 => ctx.mul(a, b), 3 => ctx.shift_left(a, b), 4 => ctx.shift_right(a, b), _ => ctx.arithmetic_shift_right(a, b) }
        }
        let d = rng.random_range(1..=2);
        let e = gen_e(&mut ctx, &mut rng, &syms, d);
        // slices are not part of the fragment: skip expressions that contain one
        let mut has_slice = false;
        let mut todo = vec![e];
        while let Some(x) = todo.pop() { if matches!(ctx[x], Expr::BVSlice { .. }) { has_slice = true; } ctx[x].for_each_child(|c| todo.push(*c)); }
        if has_slice { continue; }
        let back = guarded(|| { let a = to_arith(&ctx, e); from_arith(&mut ctx, &a) });
        out.put(&pair_record(&format!("rt{i}"), &ctx, e, back, json!({"rule": "roundtrip", "lhs": "", "rhs": ""})));
    }
    // equality saturation with the shipped rule set (the conditions are then evaluated by egg on e-class analysis data, not
    // through eval_condition): every member of the root's e-class, completed with smallest sub-terms, must be equivalent
    // to the expression the e-graph was built from
    let nsat = flag_u(args, "--saturate", 0);
    let (mut sat_terms, mut sat_variants) = (0u64, 0u64);
    for i in 0..nsat {
        let mut ctx = Context::default();
        let syms: Vec<ExprRef> = ["a", "b", "c"].iter().map(|n| { let w = rng.random_range(1..=3); ctx.bv_symbol(n, w) }).collect();
        fn gen_s(ctx: &mut Context, rng: &mut SmallRng, syms: &[ExprRef], d: u32) -> ExprRef {
            if d == 0 { return *syms.choose(rng).unwrap(); }
            let w = rng.random_range(2..=5u32);
            let mut operand = |ctx: &mut Context, rng: &mut SmallRng, allow_const: bool| -> ExprRef {
                if allow_const && rng.random_range(0..3) == 0 {
                    // small constants: the multiplication / shift rules speak about 2 and about constant shift amounts
                    let cw = rng.random_range(2..=w);
                    let c = ctx.bit_vec_val(rng.random_range(1..=3u64).min((1u64 << cw) - 1), cw);
                    return if cw < w { if rng.random_bool(0.5) { ctx.zero_extend(c, w - cw) } else { ctx.sign_extend(c, w - cw) } } else { c };
                }
                let e = gen_s(ctx, rng, syms, d - 1);
                let ew = e.get_bv_type(ctx).unwrap();
                if ew < w { if rng.random_bool(0.5) { ctx.zero_extend(e, w - ew) } else { ctx.sign_extend(e, w - ew) } } else if ew > w { ctx.slice(e, w - 1, 0) } else { e }
            };
            let (a, b) = (operand(ctx, rng, false), operand(ctx, rng, true));
            match rng.random_range(0..4) { 0 => ctx.add(a, b), 1 => ctx.mul(a, b), 2 => ctx.shift_left(a, b), _ => ctx.add(b, a) }
        }
        let d = rng.random_range(1..=2);
        let e = gen_s(&mut ctx, &mut rng, &syms, d);
        let mut has_slice = false;
        let mut todo = vec![e];
        while let Some(x) = todo.pop() { if matches!(ctx[x], Expr::BVSlice { .. }) { has_slice = true; } ctx[x].for_each_child(|c| todo.push(*c)); }
        if has_slice { continue; }
        let variants = guarded(|| {
            let a = to_arith(&ctx, e);
            let runner = egg::Runner::<Arith, WidthConstantFold>::default().with_iter_limit(4).with_node_limit(4000)
                .with_time_limit(std::time::Duration::from_secs(600)).with_expr(&a).run(&create_egg_rewrites());
            let root = runner.egraph.find(runner.roots[0]);
            let ext = egg::Extractor::new(&runner.egraph, egg::AstSize);
            let mut vs: Vec<RecExpr<Arith>> = vec![];
            for node in runner.egraph[root].nodes.iter().take(8) {
                vs.push(node.join_recexprs(|id| ext.find_best(id).1));
            }
            vs
        });
        let variants = match variants { Ok(v) => v, Err(_) => continue };
        sat_terms += 1;
        for (k, v) in variants.iter().enumerate() {
            let back = guarded(|| from_arith(&mut ctx, v));
            sat_variants += 1;
            out.put(&pair_record(&format!("sat{i}v{k}"), &ctx, e, back, json!({"rule": "saturate", "lhs": "", "rhs": format!("{}", v)})));
        }
    }
    let n = out.n;
    out.finish();
    println!("{}", json!({"records": n, "rules": J::Object(stats), "saturated_terms": sat_terms, "saturation_variants": sat_variants}));
}
