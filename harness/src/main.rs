//! `pv` - conformance harness binding the TLA+ specifications in /verif/spec to the real patronus crates.
//! Sub-commands execute TLC-generated inputs / behaviours on the real API (G direction) or drive the
//! real API with seeded random inputs, and record NDJSON traces that TLC validates (V direction).
mod ex;
mod extra;
mod c01;
mod c05;
mod smt;
mod c06;
mod c07;
mod c08;
mod sys;
mod c11;
mod c12;
mod c16;
mod c17;
mod c19;
mod c20;
mod mc;

fn main() {
    ex::install_panic_hook();
    let args: Vec<String> = std::env::args().skip(1).collect();
    if args.is_empty() {
        eprintln!("usage: pv <command> ...");
        std::process::exit(2);
    }
    let rest = &args[1..];
    match args[0].as_str() {
        "c01" => c01::run(rest),
        "c13" => c01::run_c13(rest),
        "c05" => c05::run(rest),
        "c14" => c05::run_c14(rest),
        "c06" => c06::run(rest),
        "c07" => c07::run(rest),
        "c08" => c08::run(rest),
        "c18" => c08::run_c18(rest),
        "c11" => c11::run(rest),
        "c09" => c11::run_c09(rest),
        "c12" => c12::run(rest),
        "c16" => c16::run(rest),
        "c17" => c17::run(rest),
        "c19" => c19::run(rest),
        "c20" => c20::run(rest),
        "mc" => mc::run(rest),
        "extras" => extra::run(rest),
        "smtlet" => c05::run_smtlet(rest),
        "typeck" => extra::run_typeck(rest),
        "sigorder" => extra::run_sigorder(rest),
        "enc" => mc::run_enc(rest),
        "cli" => mc::run_cli(rest),
        other => {
            eprintln!("unknown command {other}");
            std::process::exit(2);
        }
    }
}

/// tiny flag parser: --key value
pub fn flag<'a>(args: &'a [String], key: &str) -> Option<&'a str> {
    args.iter().position(|a| a == key).and_then(|i| args.get(i + 1)).map(|s| s.as_str())
}
pub fn flag_u(args: &[String], key: &str, default: u64) -> u64 {
    flag(args, key).and_then(|s| s.parse().ok()).unwrap_or(default)
}
