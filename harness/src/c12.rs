//! C12: hash-consing.  Replays TLC-generated build behaviours and drives long random build histories on
//! the real Context; every call logs the returned reference and the node it denotes (a structural key).
use crate::ex::*;
use crate::{flag, flag_u};

fn r(e: ExprRef) -> usize {
    usize::from(e)
}
fn bitstr(v: &BitVecValue) -> String {
    v.to_bit_str()
}
/// structural key of the node a reference denotes: operator, attributes, operand references, type, name
pub fn node_key(ctx: &Context, e: ExprRef) -> String {
    let mut kids = vec![];
    ctx[e].for_each_child(|c| kids.push(r(*c).to_string()));
    let n = node_json(ctx, e, &[]);
    let op = n["op"].as_str().unwrap();
    match op {
        "bvsym" => format!("bvsym|w={}|name={}", n["w"], n["name"].as_str().unwrap()),
        "arrsym" => format!("arrsym|iw={}|dw={}|name={}", n["iw"], n["dw"], n["name"].as_str().unwrap()),
        "bvlit" => {
            let b: String = n["bits"].as_array().unwrap().iter().rev().map(|x| x.to_string()).collect();
            format!("bvlit|w={}|bits={}", n["w"], b)
        }
        "slice" => format!("slice|hi={}|lo={}|a={}", n["hi"], n["lo"], kids.join(",")),
        "zext" | "sext" => format!("{op}|by={}|w={}|a={}", n["by"], n["w"], kids.join(",")),
        "sgt" | "sge" => format!("{op}|ow={}|a={}", n["ow"], kids.join(",")),
        "arrconst" => format!("arrconst|iw={}|dw={}|a={}", n["iw"], n["dw"], kids.join(",")),
        "eq" | "implies" | "ugt" | "uge" | "ite" | "arreq" | "store" | "arrite" => format!("{op}|a={}", kids.join(",")),
        _ => format!("{op}|w={}|a={}", n["w"], kids.join(",")),
    }
}

struct Log<'a> {
    out: &'a mut Out,
}
impl<'a> Log<'a> {
    fn build(&mut self, ctx: &Context, e: ExprRef, req: String) -> ExprRef {
        self.out.put(&json!({"ev":"Build","ref":r(e),"node":node_key(ctx, e),"req":req,"sref":"","norm":0,"operand":0,"s":"","t":0,"f":0,"tnode":"","fnode":""}));
        e
    }
    fn norm(&mut self, ctx: &Context, e: ExprRef, operand: ExprRef) -> ExprRef {
        self.out.put(&json!({"ev":"Build","ref":r(e),"node":node_key(ctx, e),"req":"","sref":"","norm":1,"operand":r(operand),"s":"","t":0,"f":0,"tnode":"","fnode":""}));
        e
    }
    fn lookup(&mut self, ctx: &Context, e: ExprRef) {
        self.out.put(&json!({"ev":"Lookup","ref":r(e),"node":node_key(ctx, e),"req":"","sref":"","norm":0,"operand":0,"s":"","t":0,"f":0,"tnode":"","fnode":""}));
    }
    fn consts(&mut self, ctx: &Context) {
        let (t, f) = (ctx.get_true(), ctx.get_false());
        self.out.put(&json!({"ev":"Consts","ref":0,"node":"","req":"","sref":"","norm":0,"operand":0,"s":"","t":r(t),"f":r(f),"tnode":node_key(ctx, t),"fnode":node_key(ctx, f)}));
    }
    fn reset(&mut self) {
        self.out.put(&json!({"ev":"Reset","ref":0,"node":"","req":"","sref":"","norm":0,"operand":0,"s":"","t":0,"f":0,"tnode":"","fnode":""}));
    }
    fn string(&mut self, s: &str, sr: StringRef) {
        self.out.put(&json!({"ev":"Str","ref":0,"sref":format!("{:?}", sr),"node":"","req":"","norm":0,"operand":0,"s":s,"t":0,"f":0,"tnode":"","fnode":""}));
    }
}

fn k2(op: &str, w: u32, a: ExprRef, b: ExprRef) -> String {
    format!("{op}|w={w}|a={},{}", r(a), r(b))
}

/// one primitive builder call chosen by `pick`, through Context or (alt) through Builder
fn do_call(ctx: &mut Context, log: &mut Log, rng: &mut SmallRng, pool: &mut Vec<ExprRef>, pick: u32, alt: bool) {
    let bvs: Vec<ExprRef> = pool.iter().cloned().filter(|e| e.get_bv_type(ctx).is_some()).collect();
    let arrs: Vec<ExprRef> = pool.iter().cloned().filter(|e| e.get_array_type(ctx).is_some()).collect();
    let a = *bvs.choose(rng).unwrap();
    let w = a.get_bv_type(ctx).unwrap();
    let same: Vec<ExprRef> = bvs.iter().cloned().filter(|e| e.get_bv_type(ctx) == Some(w)).collect();
    let b = *same.choose(rng).unwrap();
    let bools: Vec<ExprRef> = bvs.iter().cloned().filter(|e| e.get_bv_type(ctx) == Some(1)).collect();
    macro_rules! bin {
        ($m:ident, $op:expr) => {{
            let e = if alt { ctx.build(|c| c.$m(a, b)) } else { ctx.$m(a, b) };
            log.build(ctx, e, k2($op, w, a, b))
        }};
    }
    macro_rules! cmp {
        ($m:ident, $op:expr) => {{
            let e = if alt { ctx.build(|c| c.$m(a, b)) } else { ctx.$m(a, b) };
            log.build(ctx, e, format!("{}|a={},{}", $op, r(a), r(b)))
        }};
    }
    let e = match pick % 36 {
        0 => { let e = ctx.not(a); log.build(ctx, e, format!("not|w={w}|a={}", r(a))) }
        1 => { let e = ctx.negate(a); log.build(ctx, e, format!("neg|w={w}|a={}", r(a))) }
        2 => bin!(and, "and"), 3 => bin!(or, "or"), 4 => bin!(xor, "xor"), 5 => bin!(add, "add"), 6 => bin!(sub, "sub"), 7 => bin!(mul, "mul"),
        8 => bin!(shift_left, "shl"), 9 => bin!(shift_right, "lshr"), 10 => bin!(arithmetic_shift_right, "ashr"),
        11 => bin!(div, "udiv"), 12 => bin!(signed_div, "sdiv"), 13 => bin!(signed_mod, "smod"), 14 => bin!(signed_remainder, "srem"), 15 => bin!(remainder, "urem"),
        16 => cmp!(equal, "eq"), 17 => cmp!(greater, "ugt"), 18 => cmp!(greater_or_equal, "uge"),
        19 => { let e = ctx.greater_signed(a, b); log.build(ctx, e, format!("sgt|ow={w}|a={},{}", r(a), r(b))) }
        20 => { let e = ctx.greater_or_equal_signed(a, b); log.build(ctx, e, format!("sge|ow={w}|a={},{}", r(a), r(b))) }
        21 => {
            let c2 = *bvs.choose(rng).unwrap();
            let w2 = c2.get_bv_type(ctx).unwrap();
            let e = ctx.concat(a, c2);
            log.build(ctx, e, format!("concat|w={}|a={},{}", w + w2, r(a), r(c2)))
        }
        22 => {
            let hi = rng.random_range(0..w); let lo = rng.random_range(0..=hi);
            let e = if alt { ctx.build(|c| c.slice(a, hi, lo)) } else { ctx.slice(a, hi, lo) };
            if lo == 0 && hi + 1 == w { log.norm(ctx, e, a) } else { log.build(ctx, e, format!("slice|hi={hi}|lo={lo}|a={}", r(a))) }
        }
        23 => { let e = ctx.slice(a, w - 1, 0); log.norm(ctx, e, a) }
        24 => {
            let by = rng.random_range(0..4);
            let e = if alt { ctx.build(|c| c.zero_extend(a, by)) } else { ctx.zero_extend(a, by) };
            if by == 0 { log.norm(ctx, e, a) } else { log.build(ctx, e, format!("zext|by={by}|w={}|a={}", w + by, r(a))) }
        }
        25 => {
            let by = rng.random_range(0..4);
            let e = ctx.sign_extend(a, by);
            if by == 0 { log.norm(ctx, e, a) } else { log.build(ctx, e, format!("sext|by={by}|w={}|a={}", w + by, r(a))) }
        }
        26 => {
            let c = *bools.choose(rng).unwrap();
            let e = ctx.ite(c, a, b);
            log.build(ctx, e, format!("ite|a={},{},{}", r(c), r(a), r(b)))
        }
        27 => {
            let (p, q) = (*bools.choose(rng).unwrap(), *bools.choose(rng).unwrap());
            let e = ctx.implies(p, q);
            log.build(ctx, e, format!("implies|a={},{}", r(p), r(q)))
        }
        28 if !arrs.is_empty() => {
            let m = *arrs.choose(rng).unwrap();
            let t = m.get_array_type(ctx).unwrap();
            let idxs: Vec<ExprRef> = bvs.iter().cloned().filter(|e| e.get_bv_type(ctx) == Some(t.index_width)).collect();
            if let Some(i) = idxs.choose(rng) { let e = ctx.array_read(m, *i); log.build(ctx, e, format!("read|w={}|a={},{}", t.data_width, r(m), r(*i))) } else { a }
        }
        29 if !arrs.is_empty() => {
            let m = *arrs.choose(rng).unwrap();
            let t = m.get_array_type(ctx).unwrap();
            let idxs: Vec<ExprRef> = bvs.iter().cloned().filter(|e| e.get_bv_type(ctx) == Some(t.index_width)).collect();
            let ds: Vec<ExprRef> = bvs.iter().cloned().filter(|e| e.get_bv_type(ctx) == Some(t.data_width)).collect();
            if let (Some(i), Some(d)) = (idxs.choose(rng), ds.choose(rng)) { let e = ctx.array_store(m, *i, *d); log.build(ctx, e, format!("store|a={},{},{}", r(m), r(*i), r(*d))) } else { a }
        }
        30 => {
            let iw = rng.random_range(1..4);
            let e = ctx.array_const(a, iw);
            log.build(ctx, e, format!("arrconst|iw={iw}|dw={w}|a={}", r(a)))
        }
        31 if arrs.len() >= 1 => {
            let m = *arrs.choose(rng).unwrap();
            let t = m.get_array_type(ctx);
            let same_t: Vec<ExprRef> = arrs.iter().cloned().filter(|e| e.get_array_type(ctx) == t).collect();
            let n = *same_t.choose(rng).unwrap();
            if rng.random_bool(0.5) { let e = ctx.equal(m, n); log.build(ctx, e, format!("arreq|a={},{}", r(m), r(n))) }
            else { let c = *bools.choose(rng).unwrap(); let e = ctx.ite(c, m, n); log.build(ctx, e, format!("arrite|a={},{},{}", r(c), r(m), r(n))) }
        }
        32 => {
            // literals through bit_vec_val (u128 argument) with values across the 64 / 96 / 128-bit boundaries, and zero / one / ones
            let lw = *[8u32, 64, 65, 96, 97, 100, 127, 128].choose(rng).unwrap();
            let base: u128 = *[0u128, 1, 5, 0xff].choose(rng).unwrap();
            let hi: u128 = match rng.random_range(0..6) { 0 => 0, 1 => 1u128 << 63, 2 => 1u128 << 64, 3 => 1u128 << 95, 4 => 1u128 << 96, _ => 1u128 << (rng.random_range(96..128)) };
            let mask: u128 = if lw >= 128 { u128::MAX } else { (1u128 << lw) - 1 };
            let v = (base | hi) & mask;
            let e = match rng.random_range(0..5) {
                0 => { let e = ctx.zero(lw); log.build(ctx, e, format!("bvlit|w={lw}|bits={}", "0".repeat(lw as usize))); e }
                1 => { let e = ctx.one(lw); log.build(ctx, e, format!("bvlit|w={lw}|bits={}1", "0".repeat(lw as usize - 1))); e }
                2 => { let e = ctx.ones(lw); log.build(ctx, e, format!("bvlit|w={lw}|bits={}", "1".repeat(lw as usize))); e }
                _ => {
                    let e = if alt { ctx.build(|c| c.bit_vec_val(v, lw)) } else { ctx.bit_vec_val(v, lw) };
                    let bits: String = (0..lw).rev().map(|i| if (v >> i) & 1 == 1 { '1' } else { '0' }).collect();
                    log.build(ctx, e, format!("bvlit|w={lw}|bits={bits}"))
                }
            };
            e
        }
        _ => {
            // literal produced by one of several computations
            let lw = *[1u32, 2, 3, 8, 16, 32, 63, 64, 65, 127, 128, 129].choose(rng).unwrap();
            let v = rnd_bv(rng, lw);
            let v2 = match rng.random_range(0..6) {
                0 => BitVecValue::from_bit_str(&bitstr(&v)).unwrap(),
                1 => v.not().not(),
                2 => v.add(&BitVecValue::zero(lw)),
                3 => { let e = v.zero_extend(3); e.slice(lw - 1, 0) }
                4 => { if lw > 1 { let hi = v.slice(lw - 1, lw / 2); let lo = v.slice(lw / 2 - 1, 0); hi.concat(&lo) } else { v.clone() } }
                _ => v.clone(),
            };
            let e = if alt { ctx.build(|c| c.bv_lit(&v2)) } else { ctx.bv_lit(&v2) };
            log.build(ctx, e, format!("bvlit|w={lw}|bits={}", bitstr(&v)))
        }
    };
    pool.push(e);
}

pub fn run(args: &[String]) {
    let mut out = Out::new(flag(args, "--out").expect("--out"));
    let mut rng = seed_rng(env_seed());
    let mut nbeh = 0;
    // (G) replay of TLC-generated behaviours of Interner.tla
    if let Some(inp) = flag(args, "--in") {
        for rec in read_ndjson(inp).iter() {
            let mut ctx = Context::default();
            let mut log = Log { out: &mut out };
            log.reset();
            log.consts(&ctx);
            let mut refs: Vec<ExprRef> = vec![];
            for c in rec["calls"].as_array().unwrap() {
                let arg = |i: usize| -> ExprRef {
                    let p = c["args"][i].as_i64().unwrap();
                    if p == -1 { ctx.get_false() } else if p == -2 { ctx.get_true() } else { refs[p as usize - 1] }
                };
                let call = c["call"].as_str().unwrap();
                let e = match call {
                    "sym_x" => { let e = ctx.bv_symbol("x", 2); log.build(&ctx, e, "bvsym|w=2|name=x".into()) }
                    "sym_y" => { let e = ctx.bv_symbol("y", 2); log.build(&ctx, e, "bvsym|w=2|name=y".into()) }
                    "not" => { let a = arg(0); let w = a.get_bv_type(&ctx).unwrap(); let e = ctx.not(a); log.build(&ctx, e, format!("not|w={w}|a={}", r(a))) }
                    "and" => { let (a, b) = (arg(0), arg(1)); let w = a.get_bv_type(&ctx).unwrap(); let e = ctx.and(a, b); log.build(&ctx, e, k2("and", w, a, b)) }
                    "eq" => { let (a, b) = (arg(0), arg(1)); let e = ctx.equal(a, b); log.build(&ctx, e, format!("eq|a={},{}", r(a), r(b))) }
                    "slice_full" => { let a = arg(0); let e = ctx.slice(a, 1, 0); log.norm(&ctx, e, a) }
                    "slice_0" => { let a = arg(0); let e = ctx.slice(a, 0, 0); log.build(&ctx, e, format!("slice|hi=0|lo=0|a={}", r(a))) }
                    "zext_0" => { let a = arg(0); let e = ctx.zero_extend(a, 0); log.norm(&ctx, e, a) }
                    other => {
                        let (kind, v) = other.split_once('_').unwrap();
                        let v: u64 = v.parse().unwrap();
                        let w = if kind == "lit1" { 1 } else { 2 };
                        let e = ctx.bit_vec_val(v, w);
                        log.build(&ctx, e, format!("bvlit|w={w}|bits={}", bitstr(&BitVecValue::from_u64(v, w))))
                    }
                };
                refs.push(e);
            }
            for e in refs.iter() { log.lookup(&ctx, *e); }
            log.consts(&ctx);
            nbeh += 1;
        }
    }
    // (V) long random histories
    let nhist = flag_u(args, "--histories", 0);
    let len = flag_u(args, "--len", 5000);
    for _ in 0..nhist {
        let mut ctx = Context::default();
        let mut log = Log { out: &mut out };
        log.reset();
        log.consts(&ctx);
        let mut pool: Vec<ExprRef> = vec![ctx.get_true(), ctx.get_false()];
        for (i, w) in [1u32, 2, 8, 64, 65, 129].iter().enumerate() {
            let name = format!("s{i}");
            let e = ctx.bv_symbol(&name, *w);
            log.build(&ctx, e, format!("bvsym|w={w}|name={name}"));
            pool.push(e);
            // the same name at the same type through the other entry point is the same symbol
            let sr = ctx.string(name.clone().into());
            log.string(&name, sr);
            let e2 = ctx.symbol(sr, Type::BV(*w));
            log.build(&ctx, e2, format!("bvsym|w={w}|name={name}"));
        }
        for (iw, dw) in [(1u32, 1u32), (2, 8), (3, 65)] {
            let name = format!("m{iw}_{dw}");
            let e = ctx.array_symbol(&name, iw, dw);
            log.build(&ctx, e, format!("arrsym|iw={iw}|dw={dw}|name={name}"));
            pool.push(e);
        }
        let early: Vec<ExprRef> = pool.clone();
        for step in 0..len {
            let pick = rng.random_range(0..72);
            let alt = rng.random_bool(0.3);
            do_call(&mut ctx, &mut log, &mut rng, &mut pool, pick, alt);
            if step % 50 == 17 {
                // strings incl. duplicates
                let s = format!("str{}", rng.random_range(0..40));
                let sr = ctx.string(s.clone().into());
                log.string(&s, sr);
            }
            if step % 97 == 5 {
                log.consts(&ctx);
                for _ in 0..5 { let e = *pool.choose(&mut rng).unwrap(); log.lookup(&ctx, e); }
                for e in early.iter() { log.lookup(&ctx, *e); }
            }
            if step % 211 == 7 {
                // rebuild an old node from its parts: same structure must give the same reference
                let e = *pool.choose(&mut rng).unwrap();
                let mut kids = vec![];
                ctx[e].for_each_child(|c| kids.push(*c));
                let rebuilt = match (&ctx[e].clone(), kids.as_slice()) {
                    (Expr::BVAnd(..), [a, b]) => Some(ctx.and(*a, *b)),
                    (Expr::BVAdd(..), [a, b]) => Some(ctx.add(*a, *b)),
                    (Expr::BVNot(..), [a]) => Some(ctx.not(*a)),
                    (Expr::BVEqual(..), [a, b]) => Some(ctx.equal(*a, *b)),
                    (Expr::BVIte { .. }, [c, a, b]) => Some(ctx.ite(*c, *a, *b)),
                    (Expr::BVConcat(..), [a, b]) => Some(ctx.concat(*a, *b)),
                    (Expr::BVLiteral(v), []) => { let val: BitVecValue = v.get(&ctx).into(); Some(ctx.bv_lit(&val)) }
                    _ => None,
                };
                if let Some(n) = rebuilt { log.lookup(&ctx, n); }
            }
            if pool.len() > 400 { let k = rng.random_range(0..pool.len()); pool.swap_remove(k); }
        }
        log.consts(&ctx);
        nbeh += 1;
    }
    let n = out.n;
    out.finish();
    println!("{}", json!({"records": n, "behaviours": nbeh}));
}
