//! C16: btor2 witness text round trip.  Builds Witness values (from TLC-generated abstract witnesses at
//! several width profiles, and seeded random ones), prints them with witness_to_string, reads the text
//! back with parse_witness / parse_witnesses and exports both sides.
use crate::ex::*;
use crate::{flag, flag_u};
use patronus::btor2::{parse_witness, parse_witnesses, witness_to_string};
use patronus::mc::{InitValue, Witness};

fn wit_json(w: &Witness) -> J {
    let init: Vec<J> = w.init.iter().map(|v| match v {
        InitValue::BitVec(b) => json!({"t":"bv","bits":bits(b),"ents":[]}),
        InitValue::Array(a, idx) => json!({"t":"arr","bits":[],"ents": idx.iter().map(|i| json!([bits(i), bits(&a.select(i))])).collect::<Vec<_>>()}),
        InitValue::None => json!({"t":"none","bits":[],"ents":[]}),
    }).collect();
    let inputs: Vec<J> = w.inputs.iter().map(|step| J::Array(step.iter().map(|v| match v {
        Some(Value::BitVec(b)) => bits(b),
        Some(Value::Array(_)) => json!(["array"]),
        None => json!(["none"]),
    }).collect())).collect();
    let names = |v: &Vec<Option<String>>| -> Vec<J> { v.iter().map(|n| json!(n.clone().unwrap_or("<none>".into()))).collect() };
    json!({"failed": w.failed_safety, "init_names": names(&w.init_names), "input_names": names(&w.input_names), "init": init, "inputs": inputs})
}

/// embeds an abstract small value into a width profile
fn embed(v: u64, w: u32, profile: u32) -> BitVecValue {
    match profile {
        0 => BitVecValue::from_u64(v, w),
        1 => { // wide: replicate the low bit pattern across the word boundaries
            let s: String = (0..w).map(|i| if (v >> (i % 2)) & 1 == 1 && (i % 3 != 1) { '1' } else { '0' }).collect();
            let mut b = BitVecValue::from_bit_str(&s).unwrap();
            if v == 0 { b = BitVecValue::zero(w); }
            b
        }
        _ => if v == 0 { BitVecValue::zero(w) } else { BitVecValue::ones(w) },
    }
}

fn build(abs: &J, profile: u32, tag: usize) -> Witness {
    let (dw, iw) = match profile { 0 => (1u32, 1u32), 1 => (65, 8), _ => (129, 3) };
    let mut w = Witness::default();
    w.failed_safety = abs["failed"].as_array().unwrap().iter().map(|x| x.as_u64().unwrap() as u32).collect();
    for (i, st) in abs["init"].as_array().unwrap().iter().enumerate() {
        if st["k"] == "bv" {
            w.init.push(InitValue::BitVec(embed(st["v"].as_u64().unwrap(), dw, profile)));
        } else {
            let mut a = ArrayValue::new_sparse(iw, &BitVecValue::zero(dw));
            let mut idx = vec![];
            for e in st["ents"].as_array().unwrap() {
                let ix = embed(e[0].as_u64().unwrap(), iw, profile);
                a.store(&ix, &embed(e[1].as_u64().unwrap(), dw, profile));
                idx.push(ix);
            }
            w.init.push(InitValue::Array(a, idx));
        }
        w.init_names.push(Some(format!("st{tag}_{i}")));
    }
    let steps = abs["inputs"].as_array().unwrap();
    let n_in = steps.iter().map(|s| s.as_array().unwrap().len()).max().unwrap_or(0);
    for j in 0..n_in { w.input_names.push(Some(format!("in{tag}.{j}"))); }
    for s in steps {
        w.inputs.push(s.as_array().unwrap().iter().map(|v| Some(Value::BitVec(embed(v.as_u64().unwrap(), dw, profile)))).collect());
    }
    w
}

fn round_trip(id: String, ws: &[Witness], parse_max: usize) -> J {
    let text: String = ws.iter().map(witness_to_string).collect::<Vec<_>>().join("");
    let written: Vec<J> = ws.iter().map(wit_json).collect();
    let res = guarded(|| {
        if parse_max == 1 && ws.len() == 1 {
            parse_witness(&mut text.as_bytes()).map(|w| vec![w])
        } else {
            parse_witnesses(&mut text.as_bytes(), parse_max)
        }
    });
    let lines: Vec<&str> = text.lines().collect();
    match res {
        Ok(Ok(r)) => json!({"ev":"WitnessRT","id":id,"kind":"ok","loc":"","parse_max":parse_max,"written":written,"read":r.iter().map(wit_json).collect::<Vec<_>>(),"text":lines}),
        Ok(Err(e)) => json!({"ev":"WitnessRT","id":id,"kind":"err","loc":format!("{e}"),"parse_max":parse_max,"written":written,"read":[],"text":lines}),
        Err((loc, msg)) => json!({"ev":"WitnessRT","id":id,"kind":"panic","loc":format!("{loc}: {msg}"),"parse_max":parse_max,"written":written,"read":[],"text":lines}),
    }
}

pub fn run(args: &[String]) {
    let mut out = Out::new(flag(args, "--out").expect("--out"));
    let mut rng = seed_rng(env_seed());
    if let Some(inp) = flag(args, "--in") {
        for (i, rec) in read_ndjson(inp).iter().enumerate() {
            let pm = rec["parse_max"].as_u64().unwrap() as usize;
            for profile in 0..3u32 {
                if profile > 0 && i % 7 != (profile as usize) { continue; }
                let ws: Vec<Witness> = rec["ws"].as_array().unwrap().iter().enumerate().map(|(k, a)| build(a, profile, k)).collect();
                out.put(&round_trip(format!("g{i}p{profile}"), &ws, pm));
            }
        }
    }
    for i in 0..flag_u(args, "--random", 0) {
        let n = rng.random_range(1..=3usize);
        let mut ws = vec![];
        for k in 0..n {
            let mut w = Witness::default();
            let nf = rng.random_range(1..=3);
            let mut f: Vec<u32> = (0..5).collect();
            f.shuffle(&mut rng);
            w.failed_safety = f[..nf].to_vec();
            for s in 0..rng.random_range(0..=3usize) {
                let dw = *[1u32, 2, 8, 64, 65, 129].choose(&mut rng).unwrap();
                if rng.random_bool(0.35) {
                    let iw = *[1u32, 2, 4, 8, 16, 64].choose(&mut rng).unwrap();
                    let mut a = ArrayValue::new_sparse(iw, &BitVecValue::zero(dw));
                    let mut idx: Vec<BitVecValue> = vec![];
                    for _ in 0..rng.random_range(1..=4usize) {
                        let ix = rnd_bv(&mut rng, iw);
                        let d = if rng.random_bool(0.3) { BitVecValue::zero(dw) } else { rnd_bv(&mut rng, dw) };
                        a.store(&ix, &d);
                        if !idx.iter().any(|x| x.is_equal(&ix)) { idx.push(ix); }
                    }
                    idx.shuffle(&mut rng);
                    w.init.push(InitValue::Array(a, idx));
                } else {
                    w.init.push(InitValue::BitVec(rnd_bv(&mut rng, dw)));
                }
                w.init_names.push(Some(format!("w{k}state{s}")));
            }
            let n_in = rng.random_range(0..=3usize);
            let widths: Vec<u32> = (0..n_in).map(|_| *[1u32, 3, 64, 65, 128].choose(&mut rng).unwrap()).collect();
            for j in 0..n_in { w.input_names.push(Some(format!("w{k}_in{j}"))); }
            for _ in 0..rng.random_range(1..=3usize) {
                w.inputs.push(widths.iter().map(|wd| Some(Value::BitVec(rnd_bv(&mut rng, *wd)))).collect());
            }
            ws.push(w);
        }
        let pm = rng.random_range(1..=n);
        out.put(&round_trip(format!("r{i}"), &ws, pm));
    }
    let n = out.n;
    out.finish();
    println!("{}", json!({"records": n}));
}
