//! C01 / C13: the simplifier.  `c01` records, for every input DAG, what each entry point returned
//! (one combined node table: input root, result roots, every cache entry); `c13` feeds batches of
//! expressions sharing sub-terms to simplifier instances in different orders / cache containers inside
//! ONE Context and records (instance, cache kind, in_ref, out_ref) events.
use crate::ex::*;
use crate::{flag, flag_u};
use patronus::system::{State, TransitionSystem};

fn idx(e: ExprRef) -> usize {
    usize::from(e)
}

/// system that uses `e` as next-state function, output and (if boolean) bad state and constraint
fn system_using(ctx: &mut Context, e: ExprRef) -> TransitionSystem {
    let mut sys = TransitionSystem::new("t".to_string());
    for s in symbols_of(ctx, &[e]) {
        sys.add_input(ctx, s);
    }
    let st = match e.get_type(ctx) {
        Type::BV(w) => ctx.bv_symbol("__st", w),
        Type::Array(a) => ctx.array_symbol("__st", a.index_width, a.data_width),
    };
    sys.add_state(ctx, State { symbol: st, init: Some(e), next: Some(e) });
    sys.add_output(ctx, "o".into(), e);
    if e.get_type(ctx) == Type::BV(1) {
        sys.bad_states.push(e);
        sys.constraints.push(e);
    }
    sys
}

pub fn simplify_record(ctx: &mut Context, root: ExprRef, id: &str) -> J {
    // each entry: (api name, Result<refs>)
    let mut outs: Vec<(String, Result<Vec<ExprRef>, (String, String)>)> = vec![];
    outs.push(("single".into(), guarded(|| vec![simplify_single_expression(ctx, root)])));
    let mut cache_pairs: Vec<(ExprRef, ExprRef)> = vec![];
    let r = guarded(|| {
        let mut s = Simplifier::new(SparseExprMap::default());
        let o = s.simplify(ctx, root);
        let o2 = s.simplify(ctx, o);
        (vec![o, o2], s.verif_cache_entries())
    });
    outs.push(("sparse".into(), r.map(|(o, c)| { cache_pairs = c; o })));
    outs.push(("dense".into(), guarded(|| {
        let mut s = Simplifier::new(DenseExprMetaData::default());
        vec![s.simplify(ctx, root)]
    })));
    outs.push(("system".into(), guarded(|| {
        let mut sys = system_using(ctx, root);
        patronus::system::transform::simplify_expressions(ctx, &mut sys);
        let mut v = vec![sys.outputs[0].expr];
        if let Some(n) = sys.states[0].next { v.push(n); }
        if let Some(n) = sys.states[0].init { v.push(n); }
        v.extend(sys.bad_states.iter().cloned());
        v.extend(sys.constraints.iter().cloned());
        v
    })));
    let mut roots = vec![root];
    for (_, r) in outs.iter() {
        if let Ok(v) = r { roots.extend(v.iter().cloned()); }
    }
    for (k, v) in cache_pairs.iter() { roots.push(*k); roots.push(*v); }
    let (nodes, ix) = export_many(ctx, &roots);
    let mut p = 1;
    let mut outj = vec![];
    for (api, r) in outs.iter() {
        match r {
            Ok(v) => {
                let rs: Vec<usize> = ix[p..p + v.len()].to_vec();
                p += v.len();
                outj.push(json!({"api": api, "kind": "ok", "roots": rs, "loc": "", "msg": ""}));
            }
            Err((loc, msg)) => outj.push(json!({"api": api, "kind": "panic", "roots": [], "loc": loc, "msg": msg})),
        }
    }
    let cache: Vec<J> = (0..cache_pairs.len()).map(|i| json!([ix[p + 2 * i], ix[p + 2 * i + 1]])).collect();
    json!({"ev":"Simplify","id": id, "nodes": nodes, "root": ix[0], "outs": outj, "cache": cache})
}

pub fn run(args: &[String]) {
    let mut out = Out::new(flag(args, "--out").expect("--out"));
    let mut rng = seed_rng(env_seed());
    if let Some(inp) = flag(args, "--in") {
        for (i, rec) in read_ndjson(inp).iter().enumerate() {
            let mut ctx = Context::default();
            if i % 2 == 1 { precreate_leaves_reversed(&mut ctx, &rec["nodes"]); }
            let refs = import(&mut ctx, &rec["nodes"]);
            let root = refs[rec["root"].as_u64().unwrap() as usize - 1];
            out.put(&simplify_record(&mut ctx, root, &format!("g{i}")));
        }
    }
    let n = flag_u(args, "--random", 0);
    let cfg = GenCfg::wide(true, 64);
    for i in 0..n {
        let mut ctx = Context::default();
        let root = random_root(&mut ctx, &mut rng, &cfg);
        out.put(&simplify_record(&mut ctx, root, &format!("r{i}")));
    }
    let n_out = out.n;
    out.finish();
    println!("{}", json!({"records": n_out}));
}

pub fn random_root(ctx: &mut Context, rng: &mut SmallRng, cfg: &GenCfg) -> ExprRef {
    let widths = [1u32, 2, 3, 4, 8, 31, 32, 33, 63, 64, 65, 127, 128, 129];
    let w = *widths.choose(rng).unwrap();
    let mut syms = vec![];
    for (k, sw) in [w, w, 1, 3, 8, 65].iter().enumerate() {
        syms.push(ctx.bv_symbol(&format!("s{k}_{sw}"), *sw));
    }
    let iw = *[1u32, 2, 3].choose(rng).unwrap();
    let arrs = vec![ctx.array_symbol(&format!("m{iw}_{w}"), iw, w)];
    let d = rng.random_range(2..=4);
    gen_bv(ctx, rng, cfg, w, d, &syms, &arrs)
}

// -------------------------------------------------------------------------------------------------
// C13

fn ev(batch: usize, inst: usize, cache: &str, i: ExprRef, o: Result<ExprRef, (String, String)>, ms: u128) -> J {
    match o {
        Ok(o) => json!({"ev":"Simp","batch":batch,"inst":inst,"cache":cache,"in_ref":idx(i),"out_ref":idx(o),"kind":"ok","loc":"","ms":ms as u64}),
        Err((loc, _)) => json!({"ev":"Simp","batch":batch,"inst":inst,"cache":cache,"in_ref":idx(i),"out_ref":0,"kind":"panic","loc":loc,"ms":ms as u64}),
    }
}

/// Watchdog: a simplification that does not return within the limit is recorded as a Timeout event
/// (the trace spec has no action for it) and the process ends; the driver resumes after that batch.
fn arm_watchdog(path: String, batch: usize, secs: u64) -> std::sync::Arc<std::sync::atomic::AtomicU64> {
    let tick = std::sync::Arc::new(std::sync::atomic::AtomicU64::new(0));
    let t2 = tick.clone();
    std::thread::spawn(move || {
        let mut last = 0;
        loop {
            std::thread::sleep(std::time::Duration::from_secs(secs));
            let now = t2.load(std::sync::atomic::Ordering::SeqCst);
            if now == last {
                use std::io::Write;
                let mut f = std::fs::OpenOptions::new().append(true).create(true).open(&path).unwrap();
                writeln!(f, "{}", json!({"ev":"Timeout","batch":batch,"inst":0,"cache":"","in_ref":0,"out_ref":0,"kind":"timeout","loc":"","ms":secs*1000})).unwrap();
                std::process::exit(3);
            }
            last = now;
        }
    });
    tick
}

pub fn run_c13(args: &[String]) {
    let out_path = flag(args, "--out").expect("--out").to_string();
    let bsz = flag_u(args, "--batch", 4) as usize;
    let mut rng = seed_rng(env_seed());
    let roots_all: Vec<J> = if let Some(inp) = flag(args, "--in") { read_ndjson(inp) } else { vec![] };
    let nrandom = flag_u(args, "--random", 0) as usize;
    let cfg = GenCfg::wide(true, 64);
    let mut out = Out::new(&out_path);
    let tick = arm_watchdog(out_path.clone() + ".timeout", 0, 60);
    let nb = roots_all.len().div_ceil(bsz) + nrandom;
    let mut inst = 0usize;
    for b in 0..nb {
        let mut ctx = Context::default();
        let mut roots: Vec<ExprRef> = vec![];
        if b * bsz < roots_all.len() {
            let hi = ((b + 1) * bsz).min(roots_all.len());
            for rec in roots_all[b * bsz..hi].iter() {
                if b % 2 == 1 { precreate_leaves_reversed(&mut ctx, &rec["nodes"]); }
                let refs = import(&mut ctx, &rec["nodes"]);
                roots.push(refs[rec["root"].as_u64().unwrap() as usize - 1]);
            }
            // a root built over the others (shares every sub-term)
            if roots.len() >= 2 && roots[0].get_type(&ctx) == roots[1].get_type(&ctx) && roots[0].get_type(&ctx).is_bit_vector() {
                let x = ctx.xor(roots[0], roots[1]);
                roots.push(x);
            }
        } else if b == roots_all.len().div_ceil(bsz) && nrandom > 0 {
            // the input of a recorded finding (KF-C13-mul-wide) that random batches do not reach in every run:
            // a product of two 129-bit literals
            let x = ctx.bv_symbol("x", 129);
            let l1 = ctx.ones(129);
            let l2 = ctx.one(129);
            let m = ctx.mul(l1, l2);
            let e = ctx.xor(x, m);
            roots.push(m);
            roots.push(e);
        } else if (b - roots_all.len().div_ceil(bsz)) % 3 == 2 {
            // array terms whose constant arrays have a reducible element (an ArrayConstant is not a leaf), queried both
            // on their own and as operands of read / store / equality / if-then-else, in random order
            let w = *[1u32, 2, 8, 65].choose(&mut rng).unwrap();
            let iw = *[1u32, 2, 4].choose(&mut rng).unwrap();
            let x = ctx.bv_symbol("x", w);
            let y = ctx.bv_symbol("y", w);
            let i = ctx.bv_symbol("i", iw);
            let c = ctx.bv_symbol("c", 1);
            let m = ctx.array_symbol("m", iw, w);
            let mut reducible = |ctx: &mut Context, rng: &mut SmallRng, e: ExprRef| -> ExprRef {
                match rng.random_range(0..6) {
                    0 => { let o = ctx.ones(w); ctx.and(e, o) }
                    1 => { let z = ctx.zero(w); ctx.or(e, z) }
                    2 => { let n = ctx.not(e); ctx.not(n) }
                    3 => { let z = ctx.zero(w); ctx.xor(z, e) }
                    4 => { let t = ctx.get_true(); ctx.ite(t, e, y) }
                    _ => { let n = ctx.not(e); let nn = ctx.not(n); let o = ctx.ones(w); ctx.and(o, nn) }
                }
            };
            let r1 = reducible(&mut ctx, &mut rng, x);
            let r2 = reducible(&mut ctx, &mut rng, y);
            let k1 = ctx.array_const(r1, iw);
            let k2 = ctx.array_const(r2, iw);
            let kx = ctx.array_const(x, iw);
            let rd = ctx.array_read(k1, i);
            let st = ctx.array_store(k1, i, r2);
            let eq = ctx.equal(k1, kx);
            let it = ctx.ite(c, k1, k2);
            let st2 = ctx.array_store(m, i, rd);
            let rd2 = ctx.array_read(it, i);
            let mut all = vec![k1, k2, rd, st, eq, it, st2, rd2, r1];
            all.shuffle(&mut rng);
            all.truncate(rng.random_range(4..=9));
            roots.extend(all);
        } else {
            // random roots built over each other
            let base = random_root(&mut ctx, &mut rng, &cfg);
            roots.push(base);
            for _ in 0..rng.random_range(1..4) {
                let prev = *roots.choose(&mut rng).unwrap();
                let w = prev.get_bv_type(&ctx).unwrap();
                let other = gen_bv(&mut ctx, &mut rng, &cfg, w, 2, &[prev], &[]);
                let e = match rng.random_range(0..4) { 0 => ctx.and(prev, other), 1 => ctx.add(other, prev), 2 => ctx.not(prev), _ => { let c = ctx.equal(prev, other); ctx.ite(c, prev, other) } };
                roots.push(e);
            }
        }
        // every third batch runs in a context that already contains what the simplifier will build: the batch is
        // simplified once in a scratch copy, then a new context is filled with all results and intermediate forms FIRST
        // and the roots LAST (so every rewrite result that coincides with an existing node has an OLDER reference than the
        // expression it is rewritten from)
        if b % 3 == 1 {
            let mut scratch = ctx.clone();
            let mut s0 = Simplifier::new(SparseExprMap::default());
            for &r in roots.iter() { let _ = guarded(|| s0.simplify(&mut scratch, r)); }
            let mut first: Vec<ExprRef> = vec![];
            for (_, v) in s0.verif_cache_entries() { first.push(v); }
            for (k, _) in s0.verif_cache_entries() { first.push(k); }
            first.retain(|e| !roots.contains(e));
            first.sort(); first.dedup(); first.reverse();
            if first.len() > 400 { first.truncate(400); }
            let nfirst = first.len();
            let mut all = first;
            all.extend(roots.iter().cloned());
            let (tbl, ixs) = export_many(&scratch, &all);
            let mut ctx2 = Context::default();
            if let Ok(refs) = guarded(|| import(&mut ctx2, &tbl)) {
                roots = ixs[nfirst..].iter().map(|i| refs[*i - 1]).collect();
                ctx = ctx2;
            }
        }
        let (nodes, ix) = export_many(&ctx, &roots);
        out.put(&json!({"ev":"Batch","batch":b,"inst":0,"cache":"","in_ref":0,"out_ref":0,"kind":"ok","loc":"","ms":0,
                        "nodes": nodes, "roots": ix, "refs": roots.iter().map(|r| idx(*r)).collect::<Vec<_>>()}));
        let mut timed = |ctx: &mut Context, f: &mut dyn FnMut(&mut Context) -> ExprRef| {
            tick.fetch_add(1, std::sync::atomic::Ordering::SeqCst);
            let t0 = std::time::Instant::now();
            let r = guarded(|| f(ctx));
            tick.fetch_add(1, std::sync::atomic::Ordering::SeqCst);
            (r, t0.elapsed().as_millis())
        };
        // 1. fresh simplifier per expression
        let mut firsts = vec![];
        for &r in roots.iter() {
            inst += 1;
            let (o, ms) = timed(&mut ctx, &mut |c| simplify_single_expression(c, r));
            if let Ok(o) = &o { firsts.push(*o); }
            out.put(&ev(b, inst, "fresh", r, o, ms));
        }
        // 2. one sparse instance, random order, then every result again
        inst += 1;
        let mut s = Simplifier::new(SparseExprMap::default());
        let mut order = roots.clone();
        order.shuffle(&mut rng);
        let mut results = vec![];
        for &r in order.iter() {
            let (o, ms) = timed(&mut ctx, &mut |c| s.simplify(c, r));
            if let Ok(o) = &o { results.push(*o); }
            out.put(&ev(b, inst, "sparse", r, o, ms));
        }
        for &r in results.iter() {
            let (o, ms) = timed(&mut ctx, &mut |c| s.simplify(c, r));
            out.put(&ev(b, inst, "sparse", r, o, ms));
        }
        // 2b. sweep: every expression the shared instance has met (all keys and values of its cache, i.e. also the
        //     intermediate forms of rewrite chains) is queried as a root on the shared instance and on a fresh one
        let mut swept: Vec<ExprRef> = vec![];
        for (k, v) in s.verif_cache_entries() { swept.push(k); swept.push(v); }
        swept.sort(); swept.dedup();
        if swept.len() > 250 { swept.shuffle(&mut rng); swept.truncate(250); }
        for &r in swept.iter() {
            let (o, ms) = timed(&mut ctx, &mut |c| s.simplify(c, r));
            out.put(&ev(b, inst, "sparse", r, o, ms));
        }
        for &r in swept.iter() {
            inst += 1;
            let (o, ms) = timed(&mut ctx, &mut |c| simplify_single_expression(c, r));
            out.put(&ev(b, inst, "fresh", r, o, ms));
        }
        // 3. one dense instance, reverse order
        inst += 1;
        let mut d = Simplifier::new(DenseExprMetaData::default());
        for &r in roots.iter().rev() {
            let (o, ms) = timed(&mut ctx, &mut |c| d.simplify(c, r));
            out.put(&ev(b, inst, "dense", r, o, ms));
        }
        let mut dswept: Vec<ExprRef> = vec![];
        for (k, v) in d.verif_cache_entries() { dswept.push(k); dswept.push(v); }
        dswept.sort(); dswept.dedup();
        if dswept.len() > 150 { dswept.shuffle(&mut rng); dswept.truncate(150); }
        for &r in dswept.iter() {
            let (o, ms) = timed(&mut ctx, &mut |c| d.simplify(c, r));
            out.put(&ev(b, inst, "dense", r, o, ms));
        }
        // 4. system-wide application
        inst += 1;
        let mut sys = TransitionSystem::new("t".to_string());
        for s in symbols_of(&ctx, &roots) { sys.add_input(&ctx, s); }
        for (k, &r) in roots.iter().enumerate() { sys.add_output(&mut ctx, format!("o{k}").into(), r); }
        tick.fetch_add(1, std::sync::atomic::Ordering::SeqCst);
        let t0 = std::time::Instant::now();
        let ok = guarded(|| patronus::system::transform::simplify_expressions(&mut ctx, &mut sys));
        let ms = t0.elapsed().as_millis();
        for (k, &r) in roots.iter().enumerate() {
            let o = match &ok { Ok(()) => Ok(sys.outputs[k].expr), Err(e) => Err(e.clone()) };
            out.put(&ev(b, inst, "system", r, o, ms));
        }
        // 5. fresh simplifier again, after everything else was built in the context
        for &r in roots.iter() {
            inst += 1;
            let (o, ms) = timed(&mut ctx, &mut |c| simplify_single_expression(c, r));
            out.put(&ev(b, inst, "fresh", r, o, ms));
        }
    }
    let n_out = out.n;
    out.finish();
    println!("{}", json!({"records": n_out, "batches": nb}));
}
