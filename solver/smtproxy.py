#!/usr/bin/env python3
"""Reference solver environment: a man-in-the-middle between patronus' SmtLibSolverCtx and a real z3.
Started under the names z3 / cvc5 / bitwuzla / yices-smt2 (wrappers in solver/bin, prepended to PATH).
It never decides a property: sat/unsat and models come from z3; TLC judges verdicts, scripts and values.

Environment:
  PV_TRANSCRIPT=file     append every command line and every response (NDJSON: seq, dir, text, note)
  PV_MODEL_SEED=n        diversify models: a satisfiable query is first retried with random value constraints
  PV_CORE_MODE=solver|full|minimal|superset   which legal answer get-unsat-assumptions gives
  PV_HEARTBEAT=file      touched after every answer (a supervisor's liveness signal)
  PV_COUNT_FILE=file     persistent counter of response-bearing commands (a run may restart the solver)
  PV_FAULT_AT=n PV_FAULT_KIND=error|unknown|empty|truncate|exit|exit_status|garbage PV_FAULT_LEN=L
                         misbehave at the n-th response-bearing command
"""
import json
import os
import random
import subprocess
import sys

RESP = ("(check-sat", "(get-value", "(get-unsat-assumptions")
BACKEND = ["/usr/bin/z3", "-in", "pp.min_alias_size=4294967295", "pp.max_depth=4294967295"]


def split_top(s):
    """top-level items of the s-expression list text '( a (b c) d )'"""
    s = s.strip()
    assert s.startswith("(") and s.endswith(")"), s
    s = s[1:-1]
    items, depth, cur, inq = [], 0, "", False
    for ch in s:
        if inq:
            cur += ch
            if ch == "|":
                inq = False
            continue
        if ch == "|":
            inq = True
            cur += ch
        elif ch == "(":
            depth += 1
            cur += ch
        elif ch == ")":
            depth -= 1
            cur += ch
            if depth == 0:
                items.append(cur.strip())
                cur = ""
        elif ch.isspace() and depth == 0:
            if cur.strip():
                items.append(cur.strip())
            cur = ""
        else:
            cur += ch
    if cur.strip():
        items.append(cur.strip())
    return items


class Proxy:
    def __init__(self):
        self.profile = os.environ.get("PV_PROFILE", "z3")
        self.tr = open(os.environ["PV_TRANSCRIPT"], "a") if os.environ.get("PV_TRANSCRIPT") else None
        self.seq = 0
        self.fat = int(os.environ.get("PV_FAULT_AT", "0"))
        self.kind = os.environ.get("PV_FAULT_KIND", "")
        self.flen = int(os.environ.get("PV_FAULT_LEN", "20"))
        self.core_mode = os.environ.get("PV_CORE_MODE", "solver")
        self.seed_on = "PV_MODEL_SEED" in os.environ
        self.rnd = random.Random(int(os.environ.get("PV_MODEL_SEED", "0")) * 7919 + 13)
        self.consts = []          # (name, width) of declared constants; width 0 = Bool
        self.scopes = [0]         # number of consts declared per open scope
        self.last_assumps = None  # text items of the last check-sat-assuming
        # positions of response-bearing commands are counted across solver restarts within one run
        self.heartbeat = os.environ.get("PV_HEARTBEAT")
        self.count_file = os.environ.get("PV_COUNT_FILE")
        self.nresp = 0
        if self.count_file and os.path.exists(self.count_file):
            try:
                self.nresp = int(open(self.count_file).read().strip() or "0")
            except ValueError:
                self.nresp = 0
        self.p = subprocess.Popen(BACKEND, stdin=subprocess.PIPE, stdout=subprocess.PIPE, stderr=subprocess.PIPE, text=True, bufsize=1)

    def log(self, d, text, note=""):
        if self.tr:
            self.seq += 1
            self.tr.write(json.dumps({"seq": self.seq, "dir": d, "text": text.rstrip("\n"), "note": note}) + "\n")
            self.tr.flush()

    def send(self, line):
        self.p.stdin.write(line)
        self.p.stdin.flush()

    def read(self):
        out = self.p.stdout.readline()
        while out.count("(") > out.count(")"):
            nxt = self.p.stdout.readline()
            if not nxt:
                break
            out += nxt
        return out

    def ask(self, line):
        self.send(line)
        return self.read()

    def reply(self, text, note=""):
        self.log("<", text, note)
        sys.stdout.write(text)
        sys.stdout.flush()
        if self.heartbeat:
            # a supervisor tells a slow run (answers keep arriving) from a stuck one by this file's modification time
            try:
                os.utime(self.heartbeat, None)
            except OSError:
                pass

    def extra_constraints(self):
        picks = self.rnd.sample(self.consts, min(len(self.consts), self.rnd.randint(1, 3)))
        out = []
        for nm, w in picks:
            if w == 0:
                out.append(nm if self.rnd.random() < 0.5 else "(not %s)" % nm)
            else:
                out.append("(= %s #b%s)" % (nm, "".join(self.rnd.choice("01") for _ in range(w))))
        return out

    def fault(self):
        msg = "".join("abcdefghij"[i % 10] for i in range(self.flen))
        ans = {"error": '(error "%s")\n' % msg, "unknown": "unknown\n", "empty": "\n", "garbage": "%%$# not smt\n",
               "truncate": "((x #b0", "exit": "", "exit_status": ""}[self.kind]
        self.log("<", ans, "FAULT " + self.kind)
        sys.stdout.write(ans)
        sys.stdout.flush()
        if self.kind in ("truncate", "exit", "exit_status"):
            self.p.kill()
            if self.kind == "exit_status":
                sys.stderr.write("solver crashed: " + msg + "\n")
                sys.stderr.flush()
                os._exit(3)
            os._exit(0)

    def handle_core(self):
        """a legal answer to get-unsat-assumptions other than the solver's own"""
        real = self.ask("(get-unsat-assumptions)\n")
        if self.last_assumps is None or real.lstrip().startswith("(error"):
            return real, ""
        try:
            core = split_top(real)
        except AssertionError:
            return real, ""
        allA = list(self.last_assumps)
        if self.core_mode == "full":
            return "(" + " ".join(allA) + ")\n", "full core"
        if self.core_mode == "superset":
            extra = [a for a in allA if a not in core and self.rnd.random() < 0.5]
            return "(" + " ".join(core + extra) + ")\n", "superset core"
        if self.core_mode == "minimal":
            cur = list(core)
            for a in list(cur):
                trial = [x for x in cur if x != a]
                r = self.ask("(check-sat-assuming (" + " ".join(trial) + "))\n")
                if r.strip() == "unsat":
                    cur = trial
            # leave the backend in an unsat state for consistency
            self.ask("(check-sat-assuming (" + " ".join(cur) + "))\n")
            return "(" + " ".join(cur) + ")\n", "minimal core"
        return real, ""

    def run(self):
        for line in sys.stdin:
            self.log(">", line)
            s = line.strip()
            if s.startswith("(exit"):
                break
            # capability profiles: what the named solver would accept
            if s.startswith("(set-option"):
                if self.profile in ("bitwuzla", "yices-smt2", "cvc5") and (":incremental" in s):
                    continue  # accepted silently by the real solver, unknown to the z3 back end
            if s.startswith("(set-logic") and self.profile != "z3":
                self.send("(set-logic ALL)\n")  # z3 only accepts ((as const ..)) under ALL
                continue
            if self.profile == "yices-smt2" and (s.startswith("(check-sat-assuming") or s.startswith("(get-unsat-assumptions")):
                self.nresp += 1
                if self.count_file:
                    with open(self.count_file, "w") as cf:
                        cf.write(str(self.nresp))
                self.reply('(error "%s is not supported by yices-smt2")\n' % s.split()[0][1:], "profile")
                continue
            if s.startswith("(declare-const "):
                parts = s.split()
                name = parts[1]
                if s.startswith("(declare-const |"):
                    name = s[len("(declare-const "):s.index("|", len("(declare-const |")) + 1]
                if "(_ BitVec" in s and "Array" not in s:
                    self.consts.append((name, int(s.rstrip(")").split()[-1])))
                elif s.endswith(" Bool)"):
                    self.consts.append((name, 0))
                self.scopes[-1] += 1 if ((("(_ BitVec" in s and "Array" not in s)) or s.endswith(" Bool)")) else 0
            if s.startswith("(push"):
                self.scopes.append(0)
            if s.startswith("(pop") and len(self.scopes) > 1:
                n = self.scopes.pop()
                if n:
                    self.consts = self.consts[:-n]
            if not s.startswith(RESP):
                self.send(line)
                continue
            # response-bearing command
            self.nresp += 1
            if self.count_file:
                with open(self.count_file, "w") as cf:
                    cf.write(str(self.nresp))
            if self.fat == self.nresp:
                self.send(line)
                self.read()
                self.fault()
                continue
            if s.startswith("(check-sat"):
                if s.startswith("(check-sat-assuming"):
                    try:
                        self.last_assumps = split_top(s[len("(check-sat-assuming"):-1])
                    except AssertionError:
                        self.last_assumps = None
                else:
                    self.last_assumps = []
                if self.seed_on and self.consts and self.last_assumps is not None:
                    trial = "(check-sat-assuming (" + " ".join(self.last_assumps + self.extra_constraints()) + "))\n"
                    a = self.ask(trial)
                    if a.strip() == "sat":
                        self.reply(a, "diversified model")
                        continue
                self.reply(self.ask(line))
                continue
            if s.startswith("(get-unsat-assumptions") and self.core_mode != "solver":
                ans, note = self.handle_core()
                self.reply(ans, note)
                continue
            self.reply(self.ask(line))
        try:
            self.send("(exit)\n")
            self.p.wait(timeout=5)
        except Exception:
            self.p.kill()


if __name__ == "__main__":
    try:
        Proxy().run()
    except BrokenPipeError:
        pass
